package main

import (
	"crypto/sha256"
	"encoding/json"
	"flag"
	"fmt"
	"os"
	"path/filepath"
	"sort"
	"strconv"
	"strings"
	"time"
)

// repoRoot is the tree under test; GOSMT_REPO points development runs at a scratch worktree (the
// registered commands never set it).
var repoRoot = func() string {
	if r := os.Getenv("GOSMT_REPO"); r != "" {
		return r
	}
	return "/repo"
}()

var verifRoot = func() string {
	if r := os.Getenv("GOSMT_ROOT"); r != "" {
		return r // development copies only; the registered commands never set it
	}
	return "/verif"
}()

func main() {
	if len(os.Args) < 2 {
		fmt.Fprintln(os.Stderr, "usage: gosmt check|run|replay ...")
		os.Exit(2)
	}
	switch os.Args[1] {
	case "check":
		os.Exit(cmdCheck(os.Args[2:]))
	case "run":
		os.Exit(cmdRun(os.Args[2:]))
	case "replay":
		os.Exit(cmdReplay(os.Args[2:]))
	}
	fmt.Fprintln(os.Stderr, "unknown command", os.Args[1])
	os.Exit(2)
}

func loadRegistry(hdir string) ([]*HarnessSpec, error) {
	files, _ := filepath.Glob(filepath.Join(hdir, "registry", "*.json"))
	var all []*HarnessSpec
	for _, f := range files {
		b, err := os.ReadFile(f)
		if err != nil {
			return nil, err
		}
		var hs []*HarnessSpec
		if err := json.Unmarshal(b, &hs); err != nil {
			return nil, fmt.Errorf("%s: %v", f, err)
		}
		all = append(all, hs...)
	}
	return all, nil
}

func tierMatch(h *HarnessSpec, tier string) bool {
	switch h.Tier {
	case "", "both":
		return true
	case "quick":
		// quick harnesses also run in the thorough tier
		return true
	case "thorough":
		return tier == "thorough"
	}
	return false
}

func effective(h *HarnessSpec, tier string) *HarnessSpec {
	c := *h
	c.Params = map[string]int{}
	for k, v := range h.Params {
		c.Params[k] = v
	}
	if tier == "thorough" {
		for k, v := range h.TParams {
			c.Params[k] = v
		}
	}
	return &c
}

// cmdRun: developer command — run named harnesses and print statistics.
func cmdRun(args []string) int {
	fs := flag.NewFlagSet("run", flag.ExitOnError)
	workers := fs.Int("j", 16, "workers")
	tier := fs.String("tier", "quick", "tier")
	budget := fs.Int("budget", 600, "seconds per harness")
	replay := fs.Bool("replay", false, "replay counterexamples natively")
	onlyDeep := fs.Bool("only-thorough", false, "with -tier thorough: skip configurations that are identical to their quick form")
	fs.BoolVar(&verbose, "v", false, "verbose")
	fs.Parse(args)
	hdir := filepath.Join(verifRoot, "harness")
	eng, err := LoadEngine(hdir)
	if err != nil {
		fmt.Println("INCONCLUSIVE", err)
		return 2
	}
	reg, err := loadRegistry(hdir)
	if err != nil {
		fmt.Println("INCONCLUSIVE registry:", err)
		return 2
	}
	fmt.Printf("load+build %.2fs, %d replacements\n", eng.loadTime.Seconds(), len(eng.replaced))
	rc := 0
	for _, name := range fs.Args() {
		var specs []*HarnessSpec
		for _, h := range reg {
			if h.Name == name || h.Prop == name {
				specs = append(specs, h)
			}
		}
		if len(specs) == 0 {
			// ad-hoc harness: look in every package
			for _, dir := range pkgDirs {
				if p := eng.pkgs[dir]; p != nil && p.Func(name) != nil {
					specs = append(specs, &HarnessSpec{Name: name, Pkg: dir, Prop: "adhoc", MapRot: true})
				}
			}
		}
		for _, h0 := range specs {
			if !tierMatch(h0, *tier) {
				continue
			}
			if *onlyDeep && h0.Tier != "thorough" && len(h0.TParams) == 0 {
				continue
			}
			h := effective(h0, *tier)
			eng.known = nil
			eng.knownOpen = map[string]bool{}
			eng.knownIDs = nil
			eng.loadKnown(filepath.Join(verifRoot, "known_findings.json"), h.Prop)
			res := eng.RunHarness(h, *workers, time.Now().Add(time.Duration(*budget)*time.Second), 2)
			printResult(res)
			if *replay {
				rp := newReplayer(eng)
				for _, vs := range res.Violations {
					ok, out := rp.replayViolation(h, vs[0])
					fmt.Printf("   replay %s -> reproduced=%v %s\n", vs[0].ID, ok, out)
				}
				rp.cleanup()
			}
			if len(res.Violations) > 0 {
				rc = 1
			}
			if len(res.Incomplete) > 0 && rc == 0 {
				rc = 2
			}
		}
	}
	return rc
}

func printResult(res *HarnessResult) {
	fmt.Printf("== %s [%s]: paths=%d forks=%d queries=%d (sat %d unsat %d unk %d) solver=%.2fs maxq=%.2fs wall=%.2fs steps=%d\n",
		res.Spec.Name, res.Spec.Prop, res.Paths, res.Forks, res.Queries, res.Sat, res.Unsat, res.Unknown, res.SolverTime.Seconds(), res.MaxQuery.Seconds(), res.Wall.Seconds(), res.Steps)
	var keys []string
	for k := range res.Violations {
		keys = append(keys, k)
	}
	sort.Strings(keys)
	for _, k := range keys {
		v := res.Violations[k][0]
		fmt.Printf("   VIOL %s known=%v: %s inputs=%v obs=%v\n", v.ID, v.Known, v.Msg, fmtInputs(v.Inputs), v.Obs)
	}
	for k, n := range res.Incomplete {
		fmt.Printf("   INCOMPLETE x%d: %s\n", n, k)
	}
	var rs []string
	for k, n := range res.Reaches {
		rs = append(rs, fmt.Sprintf("%s=%d", k, n))
	}
	sort.Strings(rs)
	fmt.Printf("   reach: %s\n", strings.Join(rs, " "))
	var as []string
	for k, n := range res.Asserts {
		as = append(as, fmt.Sprintf("%s=%d", k, n))
	}
	sort.Strings(as)
	fmt.Printf("   asserts: %s\n", strings.Join(as, " "))
}

func fmtInputs(in []uint64) string {
	var sb strings.Builder
	for i, v := range in {
		if i > 0 {
			sb.WriteByte(' ')
		}
		sb.WriteString(strconv.FormatInt(int64(v), 10))
	}
	return sb.String()
}

func fileSHA(path string) string {
	b, err := os.ReadFile(path)
	if err != nil {
		return ""
	}
	h := sha256.Sum256(b)
	return fmt.Sprintf("%x", h[:6])
}

// cmdCheck: the registered check of one property.
func cmdCheck(args []string) int {
	fs := flag.NewFlagSet("check", flag.ExitOnError)
	prop := fs.String("prop", "", "property id")
	tier := fs.String("tier", os.Getenv("VERIF_TIER"), "quick|thorough")
	workers := fs.Int("j", 16, "workers")
	fs.BoolVar(&verbose, "v", false, "verbose")
	fs.Parse(args)
	if *tier == "" {
		*tier = "quick"
	}
	seed := 0
	if s := os.Getenv("VERIF_SEED"); s != "" {
		seed, _ = strconv.Atoi(s)
	}
	t0 := time.Now()
	hdir := filepath.Join(verifRoot, "harness")
	ev := &Evidence{PropertyID: *prop, Tier: *tier, Seed: seed, Level: "model_checking"}
	fail := func(msg string) int {
		fmt.Println("INCONCLUSIVE", msg)
		ev.Coverage = map[string]interface{}{"states": 0, "transitions": 0, "traces_validated_against_impl": 0, "samples": []interface{}{},
			"evaluations": 0, "distinct_nontrivial": 0, "explanation": "run did not complete: " + msg}
		ev.WallS = time.Since(t0).Seconds()
		ev.write()
		return 2
	}
	eng, err := LoadEngine(hdir)
	if err != nil {
		return fail(err.Error())
	}
	reg, err := loadRegistry(hdir)
	if err != nil {
		return fail("registry: " + err.Error())
	}
	eng.loadKnown(filepath.Join(verifRoot, "known_findings.json"), *prop)
	var specs []*HarnessSpec
	for _, h := range reg {
		if h.Prop == *prop && tierMatch(h, *tier) {
			specs = append(specs, effective(h, *tier))
		}
	}
	if len(specs) == 0 {
		return fail("no harness registered for " + *prop)
	}
	budget := 240 * time.Second
	if *tier == "thorough" {
		budget = 1500 * time.Second
		eng.timeout = 60000
	}
	rp := newReplayer(eng)
	defer rp.cleanup()
	var results []*HarnessResult
	for _, h := range specs {
		res := eng.RunHarness(h, *workers, time.Now().Add(budget), 2)
		results = append(results, res)
		if verbose {
			printResult(res)
		} else if os.Getenv("GOSMT_PROGRESS") != "" {
			fmt.Fprintf(os.Stderr, "progress %s %v paths=%d wall=%.0fs incomplete=%d\n", h.Name, h.Params, res.Paths, res.Wall.Seconds(), len(res.Incomplete))
		}
	}
	rc := finish(eng, ev, *prop, *tier, seed, results, rp, t0)
	return rc
}

func cmdReplay(args []string) int {
	if len(args) < 1 {
		fmt.Println("usage: gosmt replay <file.json>")
		return 2
	}
	hdir := filepath.Join(verifRoot, "harness")
	eng := &Engine{hdir: hdir}
	rp := newReplayer(eng)
	defer rp.cleanup()
	b, err := os.ReadFile(args[0])
	if err != nil {
		fmt.Println(err)
		return 2
	}
	var rf ReplayFile
	if err := json.Unmarshal(b, &rf); err != nil {
		fmt.Println(err)
		return 2
	}
	out, err := rp.runNative(rf.Pkg, []string{args[0]})
	fmt.Println(out)
	if err != nil {
		fmt.Println("error:", err)
		return 2
	}
	return 0
}
