package main

import (
	"encoding/json"
	"fmt"
	"os"
	"path/filepath"
	"sort"
	"strings"
	"time"
)

type Evidence struct {
	PropertyID  string                 `json:"property_id"`
	Tier        string                 `json:"tier"`
	Seed        int                    `json:"seed"`
	Level       string                 `json:"level"`
	Coverage    map[string]interface{} `json:"coverage"`
	Assumptions []string               `json:"assumptions"`
	WallS       float64                `json:"wall_s"`
	Violations  int                    `json:"violations"`
}

func (ev *Evidence) write() {
	dir := filepath.Join(verifRoot, "evidence")
	os.MkdirAll(dir, 0755)
	b, _ := json.MarshalIndent(ev, "", " ")
	os.WriteFile(filepath.Join(dir, ev.PropertyID+".json"), b, 0644)
}

type pendingReplay struct {
	h    *HarnessSpec
	v    Violation
	rf   *ReplayFile
	path string
	kind string // new | known | witness
}

func finish(eng *Engine, ev *Evidence, prop, tier string, seed int, results []*HarnessResult, rp *replayer, t0 time.Time) int {
	rc := 0
	var lines []string
	var inconclusive []string
	states, transitions := 0, 0
	queries, qsat, qunsat, qunk := 0, 0, 0, 0
	var solverT time.Duration
	funcs := map[string]bool{}
	var hstats []map[string]interface{}
	var samples []interface{}
	var pend []*pendingReplay
	replayDir := filepath.Join(verifRoot, "replays", prop)
	os.RemoveAll(replayDir)

	// lock discipline: an unprotected read counts only if some traced operation writes that location
	written := map[string]bool{}
	for _, res := range results {
		for k := range res.Written {
			written[k] = true
		}
	}
	for _, res := range results {
		for k, vs := range res.Violations {
			if strings.HasPrefix(k, "read-without-lock:") && len(vs) > 0 && !written[vs[0].Tag] {
				delete(res.Violations, k)
			}
		}
	}
	for _, res := range results {
		h := res.Spec
		states += res.Paths
		transitions += res.Forks
		queries += res.Queries
		qsat += res.Sat
		qunsat += res.Unsat
		qunk += res.Unknown
		solverT += res.SolverTime
		for f := range res.Funcs {
			funcs[f] = true
		}
		for why, n := range res.Incomplete {
			inconclusive = append(inconclusive, fmt.Sprintf("%s: %s (x%d)", h.Name, why, n))
		}
		if len(res.Reaches) == 0 && len(res.Incomplete) == 0 {
			inconclusive = append(inconclusive, fmt.Sprintf("%s: vacuous (no reach witness)", h.Name))
		}
		if len(res.Asserts) == 0 && len(res.Incomplete) == 0 && !h.NoAsserts {
			inconclusive = append(inconclusive, fmt.Sprintf("%s: vacuous (no assertion reached)", h.Name))
		}
		var vkeys []string
		for k := range res.Violations {
			vkeys = append(vkeys, k)
		}
		sort.Strings(vkeys)
		for _, k := range vkeys {
			for i, v := range res.Violations[k] {
				kind := "new"
				if len(v.Known) > 0 {
					kind = "known"
					if i > 0 {
						continue // one confirmation per known finding and assertion is enough
					}
				}
				pend = append(pend, &pendingReplay{h: h, v: v, kind: kind})
			}
		}
		// reach witnesses for translator validation (chosen by seed)
		nw := h.Witness
		if nw == 0 {
			nw = 1
		}
		if len(res.Witnesses) > 0 && !h.NoReplay {
			for i := 0; i < nw && i < len(res.Witnesses); i++ {
				w := res.Witnesses[(seed+i*7)%len(res.Witnesses)]
				pend = append(pend, &pendingReplay{h: h, v: w, kind: "witness"})
			}
		}
		hs := map[string]interface{}{"harness": h.Name, "pkg": h.Pkg, "params": h.Params, "paths": res.Paths, "forks": res.Forks,
			"queries": res.Queries, "sat": res.Sat, "unsat": res.Unsat, "unknown": res.Unknown, "solver_s": round2(res.SolverTime.Seconds()),
			"max_query_s": round2(res.MaxQuery.Seconds()), "wall_s": round2(res.Wall.Seconds()), "reach": res.Reaches, "assertions_checked": res.Asserts,
			"interpreted_instructions": res.Steps, "note": h.Note, "maprot": h.MapRot}
		hstats = append(hstats, hs)
		for i, w := range res.Witnesses {
			if i >= 2 {
				break
			}
			samples = append(samples, map[string]interface{}{"harness": h.Name, "kind": "feasible path (model of its path condition)", "inputs": fmtInputs(w.Inputs), "observations": w.Obs, "decisions": len(w.Path)})
		}
	}

	// native replays, batched per package
	validated := 0
	byPkg := map[string][]*pendingReplay{}
	for _, p := range pend {
		if p.h.NoReplay || (p.kind != "witness" && engineLevel(p.v.ID)) {
			continue
		}
		p.rf = rp.mkReplay(p.h, p.v, nil)
		if p.kind == "witness" {
			p.rf.Expect = "witness"
		}
		path, err := rp.writeFile(p.rf, replayDir)
		if err != nil {
			inconclusive = append(inconclusive, "cannot write replay file: "+err.Error())
			continue
		}
		p.path = path
		byPkg[p.h.Pkg] = append(byPkg[p.h.Pkg], p)
	}
	native := map[string]*NativeResult{}
	nativeOut := map[string]string{}
	for pkg, ps := range byPkg {
		var files []string
		for _, p := range ps {
			files = append(files, p.path)
		}
		out, _ := rp.runNative(pkg, files)
		got := parseNative(out)
		missing := false
		for _, p := range ps {
			if got[p.path] == nil {
				missing = true
			}
		}
		if missing {
			// the process died part-way: run the remaining ones individually
			for _, p := range ps {
				if got[p.path] != nil {
					continue
				}
				o, _ := rp.runNative(pkg, []string{p.path})
				g := parseNative(o)
				if g[p.path] != nil {
					got[p.path] = g[p.path]
				} else {
					nativeOut[p.path] = o
				}
			}
		}
		for k, v := range got {
			native[k] = v
		}
	}

	newViol := 0
	knownSeen := map[string]bool{}
	reported := map[string]bool{}
	mismatch := map[string][]string{}
	for _, p := range pend {
		switch p.kind {
		case "witness":
			nr := native[p.path]
			if reproduced(p.rf, nr) {
				validated++
				os.Remove(p.path)
			} else {
				inconclusive = append(inconclusive, fmt.Sprintf("engine-mismatch: witness of %s did not replay identically (%s): predicted %v, native %s", p.h.Name, p.path, p.rf.Obs, describeNative(nr, nativeOut[p.path])))
			}
		case "new", "known":
			ok := false
			if p.h.NoReplay || engineLevel(p.v.ID) {
				ok = true
				p.rf = rp.mkReplay(p.h, p.v, nil)
				p.path, _ = rp.writeFile(p.rf, replayDir)
			} else {
				nr := native[p.path]
				ok = reproduced(p.rf, nr)
				if !ok && nr == nil && strings.HasPrefix(p.rf.Expect, "panic") {
					o := nativeOut[p.path]
					ok = strings.Contains(o, "fatal error") || strings.Contains(o, "panic:")
				}
				if ok {
					validated++
				}
			}
			rkey := p.h.Name + "|" + p.v.ID + "|" + strings.Join(p.v.Known, ",")
			if ok && reported[rkey] {
				os.Remove(p.path)
				continue
			}
			if ok {
				reported[rkey] = true
			}
			if !ok {
				mismatch[rkey] = append(mismatch[rkey], fmt.Sprintf("engine-mismatch: counterexample for %s/%s did not reproduce natively (%s): %s", p.h.Name, p.v.ID, p.path, describeNative(native[p.path], nativeOut[p.path])))
				continue
			}
			if p.kind == "known" {
				for _, id := range p.v.Known {
					knownSeen[id] = true
				}
				continue
			}
			newViol++
			lines = append(lines, fmt.Sprintf("VIOLATION property=%s replay=%s", prop, p.path))
			lines = append(lines, fmt.Sprintf("  harness=%s assertion=%s: %s", p.h.Name, p.v.ID, p.v.Msg))
			samples = append(samples, map[string]interface{}{"harness": p.h.Name, "kind": "counterexample", "assertion": p.v.ID, "message": p.v.Msg, "inputs": fmtInputs(p.v.Inputs), "replay": p.path})
		}
	}
	// a counterexample class is a mismatch only when none of its instances reproduced
	for k, ms := range mismatch {
		if !reported[k] {
			inconclusive = append(inconclusive, ms[0])
		}
	}
	var knownLines []string
	var knownConfirmed []string
	for _, k := range eng.known {
		if k.Status != "open" {
			continue
		}
		if knownSeen[k.ID] {
			knownLines = append(knownLines, fmt.Sprintf("KNOWN-FINDING: property=%s %s [%s]", prop, k.What, k.ID))
			knownConfirmed = append(knownConfirmed, k.ID)
		} else {
			knownLines = append(knownLines, fmt.Sprintf("NOTE: listed finding %s was not re-confirmed by this run (tier=%s)", k.ID, tier))
		}
	}
	for _, l := range knownLines {
		fmt.Println(l)
	}
	for _, l := range lines {
		fmt.Println(l)
	}
	if newViol > 0 {
		rc = 1
	}
	if len(inconclusive) > 0 {
		sort.Strings(inconclusive)
		for _, l := range inconclusive {
			fmt.Println("INCONCLUSIVE", l)
		}
		if rc == 0 {
			rc = 2
		}
	}
	var fl []string
	for f := range funcs {
		if strings.Contains(f, "nutsdb") && !strings.Contains(f, ".v") && !strings.Contains(f, ".H_") && !strings.Contains(f, "$") {
			fl = append(fl, f)
		}
	}
	sort.Strings(fl)
	srcHash := map[string]string{}
	for _, f := range []string{"db.go", "tx.go", "tx_bptree.go", "tx_list.go", "tx_set.go", "tx_zset.go", "bptree.go", "bptree_root_idx.go", "bucket_meta.go", "entry.go", "datafile.go", "record.go", "rwmanger_fileio.go", "rwmanger_mmap.go", "utils.go", "options.go", "ds/list/list.go", "ds/set/set.go", "ds/zset/sortedset.go", "ds/zset/node.go"} {
		srcHash[f] = fileSHA(filepath.Join(repoRoot, f))
	}
	if len(samples) == 0 {
		samples = append(samples, map[string]interface{}{"note": "no completed path produced a model"})
	}
	ev.Coverage = map[string]interface{}{
		"states":                        states,
		"transitions":                   transitions,
		"traces_validated_against_impl": validated,
		"samples":                       samples,
		"exhaustive":                    len(inconclusive) == 0,
		"explanation":                   "states = feasible paths of the real SSA explored symbolically (each stands for every input satisfying its path condition); transitions = symbolic branch points where both sides were satisfiable; every assertion and every implicit panic obligation on every path was discharged by z3 (unsat = holds for all values within the bounds)",
		"harnesses":                     hstats,
		"functions_encoded":             fl,
		"functions_encoded_count":       len(fl),
		"stubs_replaced":                eng.replaced,
		"source_sha256_prefix":          srcHash,
		"queries":                       map[string]int{"total": queries, "sat": qsat, "unsat": qunsat, "unknown": qunk},
		"solver":                        "z3 4.8.12 (one incremental process per worker, per-query timeout " + fmt.Sprint(eng.timeout) + " ms)",
		"solver_time_s":                 round2(solverT.Seconds()),
		"fallback_queries":              map[string]int64{"unknown_in_z3_4.8.12_redecided_by_z3-5.1.0_or_cvc5": eng.fallbacks.Load(), "decided": eng.fallbackOK.Load()},
		"ssa_load_s":                    round2(eng.loadTime.Seconds()),
		"known_findings_confirmed":      knownConfirmed,
		"inconclusive":                  inconclusive,
		"new_violations":                newViol,
	}
	ev.Assumptions = assumptionsFor(prop, eng)
	ev.Violations = newViol
	ev.WallS = round2(time.Since(t0).Seconds())
	ev.write()
	if rc == 0 {
		fmt.Printf("OK property=%s tier=%s paths=%d queries=%d (unsat %d) replays_validated=%d wall=%.1fs\n", prop, tier, states, queries, qunsat, validated, time.Since(t0).Seconds())
	}
	return rc
}

func describeNative(nr *NativeResult, raw string) string {
	if nr == nil {
		return "no result; output tail: " + tail(raw, 300)
	}
	return fmt.Sprintf("fails=%v panic=%q skipped=%v obs=%v tries=%d", nr.Fails, nr.Panic, nr.Skipped, nr.Obs, nr.Tries)
}

func round2(f float64) float64 { return float64(int(f*100+0.5)) / 100 }

func assumptionsFor(prop string, eng *Engine) []string {
	a := []string{
		"bounded symbolic execution: every result is 'holds for all values within the stated bounds' (harness params in coverage.harnesses), not a proof",
		"GOARCH=amd64 (int = 64 bit); wrap-around integer semantics",
		"loop unwinding limit " + fmt.Sprint(eng.loopCap) + " visits per loop head and " + fmt.Sprint(eng.stepCap) + " interpreted instructions per path; hitting either is reported INCONCLUSIVE, never success",
		"CRC-32 is modelled as a collision-free digest of the accumulated message (instance axioms); the 2^-32 collision probability is outside the claim",
		"replaced callees (environment stubs executed symbolically): " + strings.Join(eng.replaced, ", "),
	}
	b, err := os.ReadFile(filepath.Join(verifRoot, "harness", "assumptions.json"))
	if err == nil {
		var m map[string][]string
		if json.Unmarshal(b, &m) == nil {
			a = append(a, m["*"]...)
			a = append(a, m[prop]...)
		}
	}
	return a
}

// engineLevel: lock-discipline violations are statements about an access trace (no schedule is
// executed natively), so they are reported from the engine without a native replay even in harnesses
// whose other assertions are replayed.
func engineLevel(id string) bool {
	for _, p := range []string{"read-without-lock:", "write-without-lock:", "write-under-read-lock:", "write-to-package-variable:"} {
		if strings.HasPrefix(id, p) {
			return true
		}
	}
	return false
}
