package main

import (
	"encoding/json"
	"hash/crc32"
	"fmt"
	"go/ast"
	"go/types"
	"os"
	"path/filepath"
	"sort"
	"strings"
	"sync"
	"sync/atomic"
	"time"

	"golang.org/x/tools/go/packages"
	"golang.org/x/tools/go/ssa"
	"golang.org/x/tools/go/ssa/ssautil"
)

var verbose bool

// HarnessSpec is one registry entry: a harness function and its bounds.
type HarnessSpec struct {
	Name     string         `json:"name"`
	Pkg      string         `json:"pkg"`  // directory relative to /repo: ".", "ds/list", ...
	Prop     string         `json:"prop"` // property id
	Tier     string         `json:"tier"` // quick | thorough | both
	Params   map[string]int `json:"params,omitempty"`
	TParams  map[string]int `json:"thorough_params,omitempty"` // overrides in the thorough tier
	MapRot   bool           `json:"maprot,omitempty"`          // model Go's unspecified map iteration start
	MaxPaths int            `json:"max_paths,omitempty"`
	Note     string         `json:"note,omitempty"`
	Group    string         `json:"group,omitempty"`
	NoReplay bool           `json:"no_replay,omitempty"` // counterexamples cannot be replayed natively (engine-only model)
	Witness  int            `json:"witness,omitempty"`   // number of reach-witness models replayed natively
	NoAsserts bool          `json:"no_asserts,omitempty"` // the harness has only implicit (panic) obligations
	FP        bool          `json:"fp,omitempty"`         // floating-point terms reach the solver (no QF_BV logic)
}

type KnownFinding struct {
	ID       string `json:"id"`
	Property string `json:"property"`
	Status   string `json:"status"` // open | fixed
	What     string `json:"what"`
	Harness  string `json:"harness,omitempty"`
	Site     string `json:"site,omitempty"`
	Region   string `json:"region,omitempty"`
	Replay   string `json:"replay,omitempty"`
	Commit   string `json:"commit,omitempty"`
	// ViolationIDs: when non-empty, the finding covers only violations whose id starts with one of
	// these prefixes (e.g. the unprotected accesses of named functions); any other violation inside the
	// region is reported as new.
	ViolationIDs []string `json:"violation_ids,omitempty"`
}

type Engine struct {
	prog     *ssa.Program
	pkgs     map[string]*ssa.Package // by dir key (".", "ds/list", ...)
	replace  map[*ssa.Function]*ssa.Function
	replaced []string
	sizes    types.Sizes
	fileHash map[string]string

	errorType          types.Type
	opaqueErrPtr       types.Type
	rtErrType          types.Type
	ioErrUnexpectedEOF *ssa.Global

	knownOpen map[string]bool
	knownIDs  map[string][]string
	known     []KnownFinding

	concCap  int
	loopCap  int
	stepCap  int
	allocCap int
	timeout  int // solver ms per query

	fallbacks  atomic.Int64
	fallbackOK atomic.Int64

	patMu sync.Mutex
	pats  map[string]int

	loadTime time.Duration
	overlay  map[string][]byte
	hdir     string
}

func (e *Engine) patternID(p string) int {
	e.patMu.Lock()
	defer e.patMu.Unlock()
	if id, ok := e.pats[p]; ok {
		return id
	}
	id := len(e.pats)
	e.pats[p] = id
	return id
}

func (e *Engine) shouldInit(path string) bool {
	if strings.HasPrefix(path, nutsMod) {
		return true
	}
	switch path {
	case "io", "github.com/xujiajun/utils/strconv2", "github.com/xujiajun/utils/filesystem":
		return true
	}
	return false
}

var pkgDirs = []string{".", "ds/list", "ds/set", "ds/zset"}

func pkgNameOf(dir string) string {
	switch dir {
	case ".":
		return "nutsdb"
	}
	return filepath.Base(dir)
}

// buildOverlay instantiates harness files for every target package.
// Files under harness/common are templates copied into every package; files under harness/<pkgname>
// belong to that package. engineSide selects the gosmt-tagged variants.
func buildOverlay(hdir string) (map[string][]byte, error) {
	ov := map[string][]byte{}
	common, _ := filepath.Glob(filepath.Join(hdir, "common", "*.go"))
	for _, dir := range pkgDirs {
		pn := pkgNameOf(dir)
		for _, f := range common {
			b, err := os.ReadFile(f)
			if err != nil {
				return nil, err
			}
			s := strings.Replace(string(b), "package PKG", "package "+pn, 1)
			ov[filepath.Join(repoRoot, dir, "zz_verif_"+filepath.Base(f))] = []byte(s)
		}
		own, _ := filepath.Glob(filepath.Join(hdir, pn, "*.go"))
		for _, f := range own {
			b, err := os.ReadFile(f)
			if err != nil {
				return nil, err
			}
			ov[filepath.Join(repoRoot, dir, "zz_verif_"+filepath.Base(f))] = b
		}
	}
	return ov, nil
}

func LoadEngine(hdir string) (*Engine, error) {
	t0 := time.Now()
	ov, err := buildOverlay(hdir)
	if err != nil {
		return nil, err
	}
	cfg := &packages.Config{
		Mode:       packages.LoadAllSyntax,
		Dir:        repoRoot,
		Overlay:    ov,
		BuildFlags: []string{"-tags=gosmt"},
		Env:        append(os.Environ(), "GOFLAGS=-mod=mod", "GOPROXY=off", "GOSUMDB=off", "GOTOOLCHAIN=local"),
	}
	pkgs, err := packages.Load(cfg, ".", "./ds/list", "./ds/set", "./ds/zset")
	if err != nil {
		return nil, err
	}
	nerr := 0
	packages.Visit(pkgs, nil, func(p *packages.Package) {
		for _, e := range p.Errors {
			fmt.Fprintln(os.Stderr, "load error:", e)
			nerr++
		}
	})
	if nerr > 0 {
		return nil, fmt.Errorf("harness-build: %d load errors", nerr)
	}
	prog, spkgs := ssautil.AllPackages(pkgs, ssa.InstantiateGenerics)
	prog.Build()
	e := &Engine{prog: prog, pkgs: map[string]*ssa.Package{}, replace: map[*ssa.Function]*ssa.Function{}, pats: map[string]int{},
		knownOpen: map[string]bool{}, fileHash: map[string]string{}, overlay: ov, hdir: hdir}
	e.sizes = types.SizesFor("gc", "amd64")
	for i, p := range pkgs {
		key := strings.TrimPrefix(strings.TrimPrefix(p.PkgPath, nutsMod), "/")
		if key == "" {
			key = "."
		}
		e.pkgs[key] = spkgs[i]
	}
	e.errorType = types.Universe.Lookup("error").Type()
	if ep := prog.ImportedPackage("errors"); ep != nil {
		e.opaqueErrPtr = types.NewPointer(ep.Type("errorString").Type())
	}
	e.rtErrType = e.opaqueErrPtr
	if ip := prog.ImportedPackage("io"); ip != nil {
		e.ioErrUnexpectedEOF = ip.Var("ErrUnexpectedEOF")
	}
	// collect //gosmt:replace directives from harness files
	funcsByName := map[string]*ssa.Function{}
	for fn := range ssautil.AllFunctions(prog) {
		funcsByName[fn.String()] = fn
	}
	for i, p := range pkgs {
		for _, f := range p.Syntax {
			fname := prog.Fset.Position(f.Pos()).Filename
			if !strings.Contains(filepath.Base(fname), "zz_verif_") {
				continue
			}
			for _, d := range f.Decls {
				fd, ok := d.(*ast.FuncDecl)
				if !ok || fd.Doc == nil {
					continue
				}
				for _, c := range fd.Doc.List {
					txt := strings.TrimSpace(strings.TrimPrefix(c.Text, "//"))
					if !strings.HasPrefix(txt, "gosmt:replace ") {
						continue
					}
					target := strings.TrimSpace(strings.TrimPrefix(txt, "gosmt:replace "))
					stub := spkgs[i].Func(fd.Name.Name)
					tf := funcsByName[target]
					if stub == nil || tf == nil {
						return nil, fmt.Errorf("harness-build: replace target %q (stub %s) not found", target, fd.Name.Name)
					}
					e.replace[tf] = stub
					e.replaced = append(e.replaced, target)
				}
			}
		}
	}
	sort.Strings(e.replaced)
	e.concCap, e.loopCap, e.stepCap, e.allocCap, e.timeout = 24, 600, 6000000, 4096, 10000
	e.loadTime = time.Since(t0)
	return e, nil
}

func logicOf(h *HarnessSpec) string {
	if h.FP {
		return ""
	}
	return "QF_BV"
}

func (e *Engine) loadKnown(path, prop string) {
	b, err := os.ReadFile(path)
	if err != nil {
		return
	}
	var all []KnownFinding
	if err := json.Unmarshal(b, &all); err != nil {
		fmt.Fprintln(os.Stderr, "known_findings.json:", err)
		return
	}
	for _, k := range all {
		if k.Property != prop {
			continue
		}
		e.known = append(e.known, k)
		if k.Status == "open" {
			e.knownOpen[k.ID] = true
			if e.knownIDs == nil {
				e.knownIDs = map[string][]string{}
			}
			e.knownIDs[k.ID] = k.ViolationIDs
		}
	}
}

// ---- per-harness exploration ----

type HarnessResult struct {
	Spec       *HarnessSpec
	Paths      int
	Completed  int
	Forks      int
	Aborted    int
	Incomplete map[string]int
	Queries    int
	Sat        int
	Unsat      int
	Unknown    int
	SolverTime time.Duration
	MaxQuery   time.Duration
	Wall       time.Duration
	Violations map[string][]Violation // key: id|known
	Reaches    map[string]int
	Assumes    map[string]int
	Asserts    map[string]int
	Funcs      map[string]bool
	Witnesses  []Violation // completed, violation-free paths with a model (for translator validation)
	Written    map[string]bool // locations (field names) written by some traced operation
	Terms      int
	Steps      int64
}

type workQueue struct {
	mu     sync.Mutex
	cond   *sync.Cond
	items  [][]Decision
	active int
	closed bool
}

func newQueue() *workQueue {
	q := &workQueue{}
	q.cond = sync.NewCond(&q.mu)
	return q
}

func (q *workQueue) push(items [][]Decision) {
	q.mu.Lock()
	q.items = append(q.items, items...)
	q.mu.Unlock()
	q.cond.Broadcast()
}

func (q *workQueue) pop() ([]Decision, bool) {
	q.mu.Lock()
	defer q.mu.Unlock()
	for len(q.items) == 0 {
		if q.active == 0 || q.closed {
			q.cond.Broadcast()
			return nil, false
		}
		q.cond.Wait()
	}
	if q.closed {
		return nil, false
	}
	it := q.items[len(q.items)-1]
	q.items = q.items[:len(q.items)-1]
	q.active++
	return it, true
}

func (q *workQueue) done() {
	q.mu.Lock()
	q.active--
	q.mu.Unlock()
	q.cond.Broadcast()
}

func (e *Engine) RunHarness(h *HarnessSpec, workers int, deadline time.Time, witnessN int) *HarnessResult {
	t0 := time.Now()
	res := &HarnessResult{Spec: h, Incomplete: map[string]int{}, Violations: map[string][]Violation{}, Reaches: map[string]int{},
		Assumes: map[string]int{}, Asserts: map[string]int{}, Funcs: map[string]bool{}}
	pkg := e.pkgs[h.Pkg]
	if pkg == nil || pkg.Func(h.Name) == nil {
		res.Incomplete["harness function not found: "+h.Pkg+"."+h.Name]++
		return res
	}
	fn := pkg.Func(h.Name)
	q := newQueue()
	q.push([][]Decision{{}})
	var mu sync.Mutex
	var wg sync.WaitGroup
	maxPaths := h.MaxPaths
	if maxPaths == 0 {
		maxPaths = 400000
	}
	for w := 0; w < workers; w++ {
		wg.Add(1)
		go func(wid int) {
			defer wg.Done()
			var pool *TermPool
			var s *Solver
			npaths := 0
			reset := func() {
				if s != nil {
					mu.Lock()
					res.Queries += s.queries
					res.Sat += s.nsat
					res.Unsat += s.nunsat
					res.Unknown += s.nunk + s.nerr
					res.SolverTime += s.dur
					if s.maxQ > res.MaxQuery {
						res.MaxQuery = s.maxQ
					}
					res.Terms += len(pool.all)
					mu.Unlock()
					s.Close()
				}
				pool = NewPool()
				s = NewSolver("z3", e.timeout, logicOf(h))
				npaths = 0
			}
			reset()
			defer func() {
				if s != nil {
					mu.Lock()
					res.Queries += s.queries
					res.Sat += s.nsat
					res.Unsat += s.nunsat
					res.Unknown += s.nunk + s.nerr
					res.SolverTime += s.dur
					if s.maxQ > res.MaxQuery {
						res.MaxQuery = s.maxQ
					}
					res.Terms += len(pool.all)
					mu.Unlock()
					s.Close()
				}
			}()
			for {
				prefix, ok := q.pop()
				if !ok {
					return
				}
				if npaths >= 250 || len(pool.all) > 1500000 {
					reset()
				}
				npaths++
				ex := e.runPath(h, fn, pool, s, prefix, witnessN)
				if ex.solverDead {
					s = nil
					reset()
				}
				q.push(ex.pending)
				mu.Lock()
				res.Paths++
				res.Forks += ex.forks
				res.Steps += int64(ex.steps)
				for k, v := range ex.reaches {
					res.Reaches[k] += v
				}
				for k, v := range ex.assumes {
					res.Assumes[k] += v
				}
				for k, v := range ex.asserts {
					res.Asserts[k] += v
				}
				for k := range ex.funcs {
					res.Funcs[k] = true
				}
				for k := range ex.writtenTags {
					if res.Written == nil {
						res.Written = map[string]bool{}
					}
					res.Written[k] = true
				}
				if ex.incomplete != "" {
					res.Incomplete[ex.incomplete]++
				}
				for _, v := range ex.violations {
					key := v.ID + "|" + strings.Join(v.Known, ",")
					if len(res.Violations[key]) < 3 {
						res.Violations[key] = append(res.Violations[key], v)
					}
				}
				if ex.samples > 0 {
					res.Completed++
				}
				if ex.witness != nil && len(res.Witnesses) < 64 {
					res.Witnesses = append(res.Witnesses, *ex.witness)
				}
				over := res.Paths >= maxPaths || time.Now().After(deadline)
				mu.Unlock()
				q.done()
				if over {
					q.mu.Lock()
					if !q.closed {
						q.closed = true
						mu.Lock()
						res.Incomplete[fmt.Sprintf("budget exhausted (%d paths, %.0fs) with work remaining", res.Paths, time.Since(t0).Seconds())]++
						mu.Unlock()
					}
					q.mu.Unlock()
					q.cond.Broadcast()
					return
				}
			}
		}(w)
	}
	wg.Wait()
	res.Wall = time.Since(t0)
	return res
}

// runPath executes one path along a decision prefix.
func (e *Engine) runPath(h *HarnessSpec, fn *ssa.Function, pool *TermPool, s *Solver, prefix []Decision, witnessN int) (ex *Exec) {
	ex = &Exec{eng: e, pool: pool, s: s, h: h, globals: map[*ssa.Global]*Cell{}, decisions: prefix,
		loopCnt: map[*ssa.BasicBlock]int{}, reaches: map[string]int{}, assumes: map[string]int{}, asserts: map[string]int{},
		crcMsg: map[*Term]crcMessage{}, ackApps: map[string][]ackApp{}, ackSeen: map[*Term]bool{}, locks: map[*Cell]*lockState{}, funcs: map[string]bool{}, inited: map[*ssa.Package]bool{}}
	s.Push()
	defer func() {
		if r := recover(); r != nil {
			if sd, ok := r.(solverDied); ok {
				ex.incomplete = sd.msg
				ex.solverDead = true
				return
			}
			panic(r)
		}
		s.Pop()
	}()
	func() {
		defer func() {
			r := recover()
			switch x := r.(type) {
			case nil:
				ex.samples = 1
			case *goPanic:
				ex.uncaughtPanic(x)
			case pathAbort:
				if x.incomplete {
					ex.incomplete = x.why
				}
			default:
				panic(r)
			}
		}()
		for _, dir := range pkgDirs {
			if p := e.pkgs[dir]; p != nil {
				ex.call(p.Func("init"), nil)
			}
		}
		ex.steps = 0
		for k := range ex.loopCnt {
			delete(ex.loopCnt, k)
		}
		ex.call(fn, nil)
	}()
	hard := 0
	for _, v := range ex.violations {
		// unprotected-read candidates are confirmed or dropped at the end of the run; they do not
		// disqualify the path as a reach witness
		if !strings.HasPrefix(v.ID, "read-without-lock:") {
			hard++
		}
	}
	if ex.samples > 0 && hard == 0 && ex.incomplete == "" && witnessN > 0 {
		// keep a model of this completed path as a reach witness
		// the witness only feeds the translator validation: a solver timeout while asking for its model
		// skips the witness, it does not make the (fully decided) path incomplete
		if in, obs, ok := ex.modelFor(ex.pool.Bool(true)); ok {
			ex.witness = &Violation{Harness: h.Name, ID: "witness", Inputs: in, Kinds: ex.inputKinds(), Obs: obs, Path: append([]Decision{}, ex.taken...)}
		} else {
			ex.incomplete = ""
		}
	}
	return ex
}

// modelFor returns concrete inputs and observation values for a model of pc ∧ c.
func (ex *Exec) modelFor(c *Term) ([]uint64, []ObsVal, bool) {
	var sb strings.Builder
	ex.pool.emit(c, &sb)
	sb.WriteString("(push 1)\n(assert " + c.ref() + ")\n")
	// make sure observed terms are defined
	var obsTerms []*Term
	type obsRef struct {
		tag   string
		first int
		n     int
		kind  string
	}
	var refs []obsRef
	for _, o := range ex.observes {
		switch v := o.v.(type) {
		case *Term:
			refs = append(refs, obsRef{o.tag, len(obsTerms), 1, kindOf(v)})
			obsTerms = append(obsTerms, v)
		case *SliceV:
			ts := ex.sliceTerms(v)
			refs = append(refs, obsRef{o.tag, len(obsTerms), len(ts), "bytes"})
			obsTerms = append(obsTerms, ts...)
		case *StringV:
			refs = append(refs, obsRef{o.tag, len(obsTerms), len(v.b), "bytes"})
			obsTerms = append(obsTerms, v.b...)
		}
	}
	for _, t := range obsTerms {
		ex.pool.emit(t, &sb)
	}
	ex.s.send(sb.String())
	defer ex.s.Pop()
	t0 := time.Now()
	r := ex.s.Check()
	if d := time.Since(t0); d > 2*time.Second {
		if dir := os.Getenv("GOSMT_SLOWLOG"); dir != "" {
			os.MkdirAll(dir, 0755)
			os.WriteFile(filepath.Join(dir, fmt.Sprintf("slowmodel-%d-%s.smt2", time.Now().UnixNano(), r)), []byte(standalone(append(append([]*Term{}, ex.pc...), c))), 0644)
		}
	}
	if r != "sat" {
		if r == "unknown" {
			ex.incomplete = "solver unknown/timeout"
		}
		return nil, nil, false
	}
	var q []string
	for _, in := range ex.inputs {
		if in.T != nil && in.T.emitted {
			q = append(q, in.T.name)
		}
	}
	for _, t := range obsTerms {
		if t.w == FW {
			// floats: observe via comparison-free bit pattern is unavailable; skip value
			q = append(q, "true")
		} else {
			q = append(q, t.ref())
		}
	}
	vals, ok := ex.s.Values(q)
	if !ok {
		return nil, nil, false
	}
	out := make([]uint64, len(ex.inputs))
	k := 0
	for i, in := range ex.inputs {
		switch {
		case in.Conc:
			out[i] = in.Val
		case in.T != nil && in.T.emitted:
			out[i] = vals[k]
			k++
		}
	}
	// Observations are evaluated under the model with every digest variable replaced by the real CRC-32
	// of its message under that model (the solver only knows digests as collision-free constants; a
	// directory image written for a native replay must carry checksums the real code accepts).
	full := map[string]uint64{}
	kk := 0
	for _, in := range ex.inputs {
		if in.T != nil && in.T.emitted {
			full[in.T.name] = vals[kk]
			kk++
		}
	}
	var ackRefs []string
	for _, t := range ex.ackVars {
		if t.emitted {
			ackRefs = append(ackRefs, t.name)
		}
	}
	if av, ok := ex.s.Values(ackRefs); ok {
		for i, n := range ackRefs {
			full[n] = av[i]
		}
	}
	for _, app := range ex.crcApps {
		if app.t.isConst || app.m.zeros > 0 {
			continue
		}
		raw := make([]byte, len(app.m.msg))
		okm := true
		for i, bt := range app.m.msg {
			v, ok := ex.pool.Eval(bt, full, map[*Term]uint64{})
			if !ok {
				okm = false
				break
			}
			raw[i] = byte(v)
		}
		if okm {
			full[app.t.name] = uint64(crc32.ChecksumIEEE(raw))
		}
	}
	var obs []ObsVal
	for _, r := range refs {
		var sbv strings.Builder
		for j := 0; j < r.n; j++ {
			t := obsTerms[r.first+j]
			v := vals[k+r.first+j]
			if ev, ok := ex.pool.Eval(t, full, map[*Term]uint64{}); ok && t.w != FW {
				v = ev
			}
			switch r.kind {
			case "bytes":
				fmt.Fprintf(&sbv, "%02x", v)
			case "bool":
				fmt.Fprintf(&sbv, "%v", v != 0)
			case "float":
				sbv.WriteString("?")
			default:
				fmt.Fprintf(&sbv, "%d", sext(v, t.w))
			}
		}
		obs = append(obs, ObsVal{Tag: r.tag, Val: sbv.String()})
	}
	return out, obs, true
}

func (ex *Exec) inputKinds() []string {
	ks := make([]string, len(ex.inputs))
	for i, in := range ex.inputs {
		ks[i] = in.Kind
	}
	return ks
}

func kindOf(t *Term) string {
	switch t.w {
	case 0:
		return "bool"
	case FW:
		return "float"
	}
	return "int"
}

func (ex *Exec) recordViolation(id, msg string, nc *Term) {
	p := ex.pool
	kr := p.Bool(false)
	var known []knownRegion
	for _, k := range ex.known {
		if pre := ex.eng.knownIDs[k.id]; len(pre) > 0 {
			hit := false
			for _, q := range pre {
				if strings.HasPrefix(id, q) {
					hit = true
				}
			}
			if !hit {
				continue
			}
		}
		known = append(known, k)
		kr = p.Or(kr, k.region)
	}
	newCond := p.And(nc, p.Not(kr))
	if ex.feasible(newCond) {
		if in, obs, ok := ex.modelFor(newCond); ok {
			ex.violations = append(ex.violations, Violation{Harness: ex.h.Name, ID: id, Msg: msg, Inputs: in, Kinds: ex.inputKinds(), Obs: obs, Path: append([]Decision{}, ex.taken...)})
		}
	}
	for _, k := range known {
		kc := p.And(nc, k.region)
		if ex.feasible(kc) {
			if in, obs, ok := ex.modelFor(kc); ok {
				ex.violations = append(ex.violations, Violation{Harness: ex.h.Name, ID: id, Msg: msg, Known: []string{k.id}, Inputs: in, Kinds: ex.inputKinds(), Obs: obs, Path: append([]Decision{}, ex.taken...)})
			}
		}
	}
}

func (ex *Exec) vassert(id string, c *Term) {
	ex.asserts[id]++
	nc := ex.pool.Not(c)
	if nc.isConst && nc.c == 0 {
		return
	}
	if !ex.feasible(nc) {
		return
	}
	ex.recordViolation(id, "assertion "+id+" violated at "+ex.callerSite(), nc)
	// continue the path with the assertion holding
	ex.assume(c, "after-assert:"+id)
}

func (ex *Exec) uncaughtPanic(gp *goPanic) {
	fn := gp.where
	if i := strings.Index(fn, " ("); i >= 0 {
		fn = fn[:i]
	}
	fn = strings.Replace(fn, "github.com/xujiajun/nutsdb", "nutsdb", 1)
	id := "panic:" + fn
	ex.recordViolation(id, gp.msg+" at "+gp.where, ex.pool.Bool(true))
}

type Access struct {
	Kind  string
	Loc   string
	Where string
}

// ---- lock discipline (C14 / C17 / C18) ----
//
// While tracing, every load and store of a location that was reachable from the shared state when
// tracing started (the DB object graph and the package-level variables of the code under test) is
// checked against the lock held at that instant:
//   * a write needs the write lock;
//   * a read needs the read or the write lock (reads of the immutable options are exempt);
//   * a write to a package-level variable is a violation under any per-database lock, because two
//     databases in one process take different locks.
// Accesses performed by harness / environment-stub code are not counted; the file-system stubs report
// file reads and writes through vFileAccess.

func (ex *Exec) lockMode() int {
	mode := 0
	for _, st := range ex.locks {
		if st.writer {
			return 2
		}
		if st.readers > 0 {
			mode = 1
		}
	}
	return mode
}

func (ex *Exec) inHarnessCode() bool {
	fr := ex.cur
	if fr == nil || fr.fn == nil {
		return true
	}
	if fr.fn.Pkg == nil || !strings.HasPrefix(fr.fn.Pkg.Pkg.Path(), nutsMod) {
		// library code called by nutsdb (sort.Sort swapping elements, bytes.Buffer ...): attribute to the caller
		for fr != nil && (fr.fn == nil || fr.fn.Pkg == nil || !strings.HasPrefix(fr.fn.Pkg.Pkg.Path(), nutsMod)) {
			fr = fr.caller
		}
		if fr == nil {
			return true
		}
	}
	f := fr.fn
	for f.Parent() != nil {
		f = f.Parent()
	}
	pos := f.Pos()
	if !pos.IsValid() {
		return false
	}
	return strings.Contains(ex.eng.prog.Fset.Position(pos).Filename, "zz_verif_")
}

func (ex *Exec) inHarnessFrame(fr *Frame) bool {
	if fr == nil || fr.fn == nil {
		return true
	}
	f := fr.fn
	for f.Parent() != nil {
		f = f.Parent()
	}
	pos := f.Pos()
	if !pos.IsValid() {
		return false
	}
	return strings.Contains(ex.eng.prog.Fset.Position(pos).Filename, "zz_verif_")
}

func (ex *Exec) disciplineViolation(kind string, tag string) {
	w := ex.where()
	fn := w
	if i := strings.Index(fn, " ("); i >= 0 {
		fn = fn[:i]
	}
	fn = strings.Replace(fn, "github.com/xujiajun/nutsdb", "nutsdb", 1)
	id := kind + ":" + fn
	if ex.raceSeen == nil {
		ex.raceSeen = map[string]bool{}
	}
	if ex.raceSeen[id] {
		return
	}
	ex.raceSeen[id] = true
	n0 := len(ex.violations)
	ex.recordViolation(id, kind+" of shared state ("+tag+") at "+w, ex.pool.Bool(true))
	for i := n0; i < len(ex.violations); i++ {
		ex.violations[i].Tag = tag
	}
}

func (ex *Exec) checkAccess(write, global bool, tag string) {
	if ex.inHarnessCode() {
		return
	}
	mode := ex.lockMode()
	switch {
	case write && global:
		ex.disciplineViolation("write-to-package-variable", tag)
	case write && mode != 2:
		if mode == 1 {
			ex.disciplineViolation("write-under-read-lock", tag)
		} else {
			ex.disciplineViolation("write-without-lock", tag)
		}
	case !write && mode == 0 && !global:
		if strings.HasPrefix(tag, "opt") {
			return
		}
		// an unprotected read is a race only if some operation writes that location: recorded as a
		// candidate and confirmed at the end of the run against the set of written locations
		ex.disciplineViolation("read-without-lock", tag)
	}
	if write && !global {
		if ex.writtenTags == nil {
			ex.writtenTags = map[string]bool{}
		}
		ex.writtenTags[tag] = true
	}
}

func (ex *Exec) access(c *Cell, write bool) {
	if !ex.tracing || c == nil || !c.shared {
		return
	}
	ex.checkAccess(write, c.global, c.tag)
}

func (ex *Exec) accessMap(m *MapV, k Value, write bool) {
	if !ex.tracing || m == nil || !m.shared {
		return
	}
	ex.checkAccess(write, false, "map")
}

// share marks everything reachable from v as shared state.
func (ex *Exec) share(v Value, tag string, seen map[interface{}]bool) {
	switch x := v.(type) {
	case *Cell:
		if x == nil || seen[x] {
			return
		}
		seen[x] = true
		x.shared = true
		if x.tag == "" {
			x.tag = tag
		}
		ex.share(x.v, tag, seen)
	case *StructV:
		for _, c := range x.f {
			ex.share(c, tag, seen)
		}
	case *ArrayV:
		if seen[x] {
			return
		}
		seen[x] = true
		for _, c := range x.e {
			ex.share(c, tag, seen)
		}
	case *SliceV:
		if x != nil && x.arr != nil {
			ex.share(x.arr, tag, seen)
		}
	case *MapV:
		if x == nil || seen[x] {
			return
		}
		seen[x] = true
		x.shared = true
		for _, k := range x.keys {
			ex.share(k, tag, seen)
		}
		for _, c := range x.vals {
			ex.share(c, tag, seen)
		}
	case *IfaceV:
		if x != nil {
			ex.share(x.v, tag, seen)
		}
	case *FuncV:
		if x != nil {
			for _, f := range x.free {
				ex.share(f, tag, seen)
			}
		}
	}
}
