package main

import (
	"bufio"
	"fmt"
	"io"
	"os/exec"
	"strconv"
	"strings"
	"time"
)

// Solver wraps one persistent SMT solver process (z3 -in).
type Solver struct {
	cmd     *exec.Cmd
	in      io.WriteCloser
	out     *bufio.Reader
	queries int
	nsat    int
	nunsat  int
	nunk    int
	nerr    int
	dur     time.Duration
	maxQ    time.Duration
	timeout int // ms
	bin     string
}

func NewSolver(bin string, timeoutMs int, logic string) *Solver {
	var cmd *exec.Cmd
	switch {
	case strings.HasPrefix(bin, "cvc5"):
		cmd = exec.Command("cvc5", "--incremental", "--produce-models", fmt.Sprintf("--tlimit-per=%d", timeoutMs), "--lang=smt2")
	default:
		cmd = exec.Command(bin, "-in", fmt.Sprintf("-t:%d", timeoutMs))
	}
	in, _ := cmd.StdinPipe()
	o, _ := cmd.StdoutPipe()
	cmd.Stderr = cmd.Stdout
	if err := cmd.Start(); err != nil {
		panic(err)
	}
	s := &Solver{cmd: cmd, in: in, out: bufio.NewReaderSize(o, 1<<16), timeout: timeoutMs, bin: bin}
	if strings.HasPrefix(bin, "cvc5") {
		s.send("(set-logic ALL)\n")
	}
	s.send("(set-option :global-declarations true)\n")
	if logic != "" && !strings.HasPrefix(bin, "cvc5") {
		// QF_BV selects z3's SAT-based incremental bit-vector solver, far faster under push/pop than
		// the default core; harnesses whose terms need floating point run without a logic
		s.send("(set-logic " + logic + ")\n")
	}
	return s
}

func (s *Solver) Close() {
	s.in.Close()
	done := make(chan struct{})
	go func() { s.cmd.Wait(); close(done) }()
	select {
	case <-done:
	case <-time.After(2 * time.Second):
		s.cmd.Process.Kill()
	}
}

func (s *Solver) send(x string) { io.WriteString(s.in, x) }

func (s *Solver) readLine() string {
	l, err := s.out.ReadString('\n')
	if err != nil {
		panic(solverDied{"solver died: " + err.Error()})
	}
	return strings.TrimSpace(l)
}

type solverDied struct{ msg string }

func (s *Solver) Push()           { s.send("(push 1)\n") }
func (s *Solver) Pop()            { s.send("(pop 1)\n") }
func (s *Solver) Assert(e string) { s.send("(assert " + e + ")\n") }

// Check returns "sat", "unsat" or "unknown" (timeouts and any (error ...) line are "unknown").
func (s *Solver) Check() string {
	t0 := time.Now()
	s.send("(check-sat)\n(echo \"@@done\")\n")
	res := ""
	for {
		l := s.readLine()
		if l == "@@done" || l == "\"@@done\"" {
			break
		}
		switch {
		case l == "sat" || l == "unsat" || l == "unknown":
			if res == "" {
				res = l
			}
		case strings.HasPrefix(l, "(error"):
			if !strings.HasPrefix(res, "error:") {
				res = "error:" + l
			}
		case l == "timeout":
			res = "unknown"
		}
	}
	d := time.Since(t0)
	s.dur += d
	if d > s.maxQ {
		s.maxQ = d
	}
	s.queries++
	switch {
	case res == "sat":
		s.nsat++
	case res == "unsat":
		s.nunsat++
	case strings.HasPrefix(res, "error:"):
		s.nerr++
		if verbose {
			fmt.Println("  solver error:", res)
		}
		return "unknown"
	default:
		s.nunk++
		return "unknown"
	}
	return res
}

// Values evaluates the given refs under the current model. Each result is a uint64 bit pattern
// (bool: 0/1). Terms wider than 64 bits are not supported here.
func (s *Solver) Values(refs []string) ([]uint64, bool) {
	if len(refs) == 0 {
		return nil, true
	}
	res := make([]uint64, 0, len(refs))
	const chunk = 64
	for i := 0; i < len(refs); i += chunk {
		j := i + chunk
		if j > len(refs) {
			j = len(refs)
		}
		s.send("(get-value (" + strings.Join(refs[i:j], " ") + "))\n(echo \"@@done\")\n")
		var sb strings.Builder
		for {
			l := s.readLine()
			if l == "@@done" || l == "\"@@done\"" {
				break
			}
			sb.WriteString(l)
			sb.WriteByte(' ')
		}
		txt := sb.String()
		if strings.Contains(txt, "(error") {
			return nil, false
		}
		vals := parseValues(txt)
		if len(vals) != j-i {
			return nil, false
		}
		res = append(res, vals...)
	}
	return res, true
}

// parseValues extracts the value literals of a get-value answer: ((ref val) (ref val) ...)
func parseValues(txt string) []uint64 {
	var out []uint64
	// tokenise; each pair is "(" ref val ")" where ref/val may be nested s-exprs
	toks := tokenize(txt)
	pos := 0
	if pos < len(toks) && toks[pos] == "(" {
		pos++
	}
	for pos < len(toks) && toks[pos] == "(" {
		pos++
		// skip ref
		pos = skipSexp(toks, pos)
		// value
		start := pos
		pos = skipSexp(toks, pos)
		v, ok := parseLit(toks[start:pos])
		if !ok {
			return nil
		}
		out = append(out, v)
		if pos < len(toks) && toks[pos] == ")" {
			pos++
		}
	}
	return out
}

func tokenize(s string) []string {
	var toks []string
	cur := strings.Builder{}
	flush := func() {
		if cur.Len() > 0 {
			toks = append(toks, cur.String())
			cur.Reset()
		}
	}
	for _, r := range s {
		switch r {
		case '(', ')':
			flush()
			toks = append(toks, string(r))
		case ' ', '\t', '\n', '\r':
			flush()
		default:
			cur.WriteRune(r)
		}
	}
	flush()
	return toks
}

func skipSexp(toks []string, pos int) int {
	if pos >= len(toks) {
		return pos
	}
	if toks[pos] != "(" {
		return pos + 1
	}
	depth := 0
	for pos < len(toks) {
		if toks[pos] == "(" {
			depth++
		} else if toks[pos] == ")" {
			depth--
			if depth == 0 {
				return pos + 1
			}
		}
		pos++
	}
	return pos
}

func parseLit(t []string) (uint64, bool) {
	if len(t) == 1 {
		x := t[0]
		switch {
		case x == "true":
			return 1, true
		case x == "false":
			return 0, true
		case strings.HasPrefix(x, "#x"):
			v, err := strconv.ParseUint(x[2:], 16, 64)
			return v, err == nil
		case strings.HasPrefix(x, "#b"):
			v, err := strconv.ParseUint(x[2:], 2, 64)
			return v, err == nil
		}
		return 0, false
	}
	// (_ bvN W)
	if len(t) == 5 && t[0] == "(" && t[1] == "_" && strings.HasPrefix(t[2], "bv") {
		v, err := strconv.ParseUint(t[2][2:], 10, 64)
		return v, err == nil
	}
	return 0, false
}
