package main

import (
	"fmt"
	"go/constant"
	"go/token"
	"go/types"
	"os"
	"os/exec"
	"path/filepath"
	"strings"
	"sync"
	"time"

	"golang.org/x/tools/go/ssa"
)

// Decision is one entry of the path id: a branch direction, or a concretised value.
type Decision struct {
	B bool  `json:"b"`
	V int64 `json:"v,omitempty"`
}

type Input struct {
	Kind string // int64 uint64 uint32 uint16 byte bool float64 choose
	T    *Term
	Val  uint64 // value for concrete inputs (choose)
	Conc bool
}

type Violation struct {
	Harness string
	ID      string // assertion id or "panic:<site>"
	Msg     string
	Known   []string // known-finding ids whose region covers this instance (empty: new)
	Tag     string // lock discipline: the location (field) concerned
	Inputs  []uint64
	Kinds   []string
	Path    []Decision
	Obs     []ObsVal
}

type ObsVal struct {
	Tag string `json:"tag"`
	Val string `json:"val"`
}

type knownRegion struct {
	id     string
	region *Term
}

type lockState struct {
	writer  bool
	readers int
}

// funcInfo caches register numbering of one SSA function.
type funcInfo struct {
	idx map[ssa.Value]int
	n   int
}

var funcInfos sync.Map

func infoOf(fn *ssa.Function) *funcInfo {
	if v, ok := funcInfos.Load(fn); ok {
		return v.(*funcInfo)
	}
	fi := &funcInfo{idx: map[ssa.Value]int{}}
	for _, p := range fn.Params {
		fi.idx[p] = fi.n
		fi.n++
	}
	for _, fv := range fn.FreeVars {
		fi.idx[fv] = fi.n
		fi.n++
	}
	for _, b := range fn.Blocks {
		for _, ins := range b.Instrs {
			if v, ok := ins.(ssa.Value); ok {
				fi.idx[v] = fi.n
				fi.n++
			}
		}
	}
	funcInfos.Store(fn, fi)
	return fi
}

type Frame struct {
	fn     *ssa.Function
	info   *funcInfo
	env    []Value
	defers []deferred
	caller *Frame
	pos    token.Pos
	loops  map[*ssa.BasicBlock]int
}

type deferred struct {
	fv   *FuncV
	args []Value
	// invoke
	recv   *IfaceV
	method *types.Func
}

type Exec struct {
	eng  *Engine
	pool *TermPool
	s    *Solver
	h    *HarnessSpec

	globals   map[*ssa.Global]*Cell
	inited    map[*ssa.Package]bool
	decisions []Decision
	taken     []Decision
	pending   [][]Decision
	pc        []*Term
	inputs    []Input
	nvars     int
	ncells    int
	nmaps     int
	steps     int
	depth     int
	loopCnt   map[*ssa.BasicBlock]int

	model      map[string]uint64
	modelValid bool

	panicking  *goPanic
	recovered  bool
	known      []knownRegion
	violations []Violation
	reaches    map[string]int
	assumes    map[string]int
	asserts    map[string]int
	observes   []struct {
		tag string
		v   Value
	}
	crcApps []crcApp
	crcMsg  map[*Term]crcMessage
	ackApps map[string][]ackApp
	ackSeen map[*Term]bool
	ackVars []*Term
	locks   map[*Cell]*lockState
	trace   []Access
	tracing bool
	cur     *Frame

	raceSeen   map[string]bool
	writtenTags map[string]bool
	forks      int
	solverDead bool
	witness    *Violation
	incomplete string
	funcs      map[string]bool
	samples    int
}

type crcMessage struct {
	msg   []*Term
	zeros int // implicit trailing zero bytes of a lazy buffer
}

type ackApp struct {
	args []*Term
	val  *Term
}

type crcApp struct {
	t *Term // the crc value term (uf application or constant)
	m crcMessage
	n int // message length in bytes
}

func (ex *Exec) fresh(prefix string, w int) *Term {
	// the sort is part of the name: the pool (and the solver's declarations) outlive a path, and the
	// n-th input of another path may have a different width
	t := ex.pool.Var(fmt.Sprintf("%s%dw%d", prefix, ex.nvars, w), w)
	ex.nvars++
	return t
}

func (ex *Exec) newCell(v Value) *Cell {
	ex.ncells++
	return &Cell{v: v, id: ex.ncells}
}

func (ex *Exec) emitAssert(t *Term) {
	var sb strings.Builder
	ex.pool.emit(t, &sb)
	sb.WriteString("(assert " + t.ref() + ")\n")
	ex.s.send(sb.String())
	ex.pc = append(ex.pc, t)
}

// evalModel evaluates a boolean term under the cached model of the path condition.
func (ex *Exec) evalModel(c *Term) (bool, bool) {
	if !ex.modelValid {
		return false, false
	}
	v, ok := ex.pool.Eval(c, ex.model, map[*Term]uint64{})
	return v != 0, ok
}

// checkWith asks whether pc ∧ c is satisfiable. On sat it refreshes the cached model if keep.
func (ex *Exec) checkWith(c *Term, keep bool) string {
	var sb strings.Builder
	ex.pool.emit(c, &sb)
	sb.WriteString("(push 1)\n(assert " + c.ref() + ")\n")
	ex.s.send(sb.String())
	t0 := time.Now()
	r := ex.s.Check()
	if d := time.Since(t0); d > 2*time.Second {
		if dir := os.Getenv("GOSMT_SLOWLOG"); dir != "" {
			os.MkdirAll(dir, 0755)
			os.WriteFile(filepath.Join(dir, fmt.Sprintf("slow-%d-%s.smt2", time.Now().UnixNano(), r)), []byte(standalone(append(append([]*Term{}, ex.pc...), c))), 0644)
		}
	}
	if r == "sat" && keep {
		ex.fetchModel()
	}
	ex.s.Pop()
	if r == "unknown" {
		r = ex.fallbackCheck(c)
		if r == "sat" && keep {
			ex.modelValid = false
		}
	}
	if r == "unknown" {
		ex.incomplete = "solver unknown/timeout"
	}
	return r
}

// fallbackCheck re-decides pc ∧ c as a standalone script with the other installed solvers
// (z3 5.1.0, then cvc5) when the incremental z3 answered unknown.
func (ex *Exec) fallbackCheck(c *Term) string {
	script := standalone(append(append([]*Term{}, ex.pc...), c))
	dir := filepath.Join(verifRoot, ".work")
	os.MkdirAll(dir, 0755)
	f, err := os.CreateTemp(dir, "fb-*.smt2")
	if err != nil {
		return "unknown"
	}
	defer os.Remove(f.Name())
	f.WriteString(script)
	f.Close()
	ex.eng.fallbacks.Add(1)
	for _, cmd := range [][]string{{"z3-new", "-T:40", f.Name()}, {"cvc5", "--tlimit=40000", f.Name()}} {
		out, _ := exec.Command(cmd[0], cmd[1:]...).CombinedOutput()
		o := strings.TrimSpace(string(out))
		if strings.Contains(o, "(error") {
			continue
		}
		if o == "sat" || o == "unsat" {
			ex.eng.fallbackOK.Add(1)
			return o
		}
	}
	return "unknown"
}

func (ex *Exec) fetchModel() {
	var refs []string
	var names []string
	for _, in := range ex.inputs {
		if in.T != nil && in.T.emitted {
			refs = append(refs, in.T.name)
			names = append(names, in.T.name)
		}
	}
	for _, t := range ex.extraVars() {
		if t.emitted {
			refs = append(refs, t.name)
			names = append(names, t.name)
		}
	}
	vals, ok := ex.s.Values(refs)
	if !ok {
		ex.modelValid = false
		return
	}
	m := make(map[string]uint64, len(vals))
	for i, n := range names {
		m[n] = vals[i]
	}
	ex.model = m
	ex.modelValid = true
}

func (ex *Exec) extraVars() []*Term { return ex.ackVars }

// take records a decision and asserts its literal.
func (ex *Exec) take(c *Term, d Decision) {
	ex.taken = append(ex.taken, d)
	lit := c
	if !d.B {
		lit = ex.pool.Not(c)
	}
	if ex.modelValid {
		if v, ok := ex.evalModel(lit); !ok || !v {
			ex.modelValid = false
		}
	}
	ex.emitAssert(lit)
}

// branch decides a symbolic condition, forking when both sides are feasible.
func (ex *Exec) branch(c *Term) bool {
	if c.isConst {
		return c.c != 0
	}
	idx := len(ex.taken)
	if idx < len(ex.decisions) {
		d := ex.decisions[idx]
		ex.take(c, d)
		return d.B
	}
	guess := true
	if v, ok := ex.evalModel(c); ok {
		guess = v
	} else {
		// no usable model: establish one side by query
		r := ex.checkWith(c, true)
		if r != "sat" {
			// pc is satisfiable by invariant, so the other side is the only one
			ex.take(c, Decision{B: false})
			return false
		}
		guess = true
	}
	// guess side is feasible (the cached model satisfies it); test the other side
	other := c
	if guess {
		other = ex.pool.Not(c)
	}
	r := ex.checkWith(other, false)
	if r == "sat" {
		ex.forks++
		alt := append(append([]Decision{}, ex.taken...), Decision{B: !guess})
		ex.pending = append(ex.pending, alt)
	}
	ex.take(c, Decision{B: guess})
	return guess
}

// feasible reports whether pc ∧ c is satisfiable, without forking or asserting.
func (ex *Exec) feasible(c *Term) bool {
	if c.isConst {
		return c.c != 0
	}
	if v, ok := ex.evalModel(c); ok && v {
		return true
	}
	return ex.checkWith(c, false) == "sat"
}

// assume adds c to the path condition; the path ends if it becomes infeasible.
func (ex *Exec) assume(c *Term, site string) {
	if c.isConst {
		if c.c == 0 {
			panic(pathAbort{why: "assume-false"})
		}
		ex.assumes[site]++
		return
	}
	if v, ok := ex.evalModel(c); !(ok && v) {
		if ex.checkWith(c, true) != "sat" {
			panic(pathAbort{why: "assume-false"})
		}
	}
	ex.assumes[site]++
	ex.emitAssert(c)
	if v, ok := ex.evalModel(c); !ok || !v {
		ex.modelValid = false
	}
}

func (ex *Exec) where() string {
	fr := ex.cur
	for fr != nil {
		if fr.fn != nil && fr.pos.IsValid() {
			p := ex.eng.prog.Fset.Position(fr.pos)
			fn := fr.fn.String()
			return fmt.Sprintf("%s (%s:%d)", fn, shortFile(p.Filename), p.Line)
		}
		fr = fr.caller
	}
	return "?"
}

func shortFile(f string) string {
	if i := strings.LastIndex(f, "/"); i >= 0 {
		// keep one directory level for ds/*
		if j := strings.LastIndex(f[:i], "/"); j >= 0 && strings.HasPrefix(f, repoRoot+"/ds/") {
			return f[j+1:]
		}
		return f[i+1:]
	}
	return f
}

// require is the implicit assertion of a panicking instruction.
func (ex *Exec) require(ok *Term, msg string) {
	if !ex.branch(ok) {
		ex.rtPanic(msg)
	}
}

func (ex *Exec) rtPanic(msg string) {
	w := ex.where()
	// runtime.Error value: represented as an interface holding an opaque object
	panic(&goPanic{val: &IfaceV{t: ex.eng.rtErrType, v: ex.strVal(msg)}, msg: "runtime error: " + msg, where: w, rt: true})
}

func (ex *Exec) strVal(s string) *StringV {
	sv := &StringV{b: make([]*Term, len(s))}
	for i := 0; i < len(s); i++ {
		sv.b[i] = ex.pool.BV(8, uint64(s[i]))
	}
	return sv
}

func (ex *Exec) concreteStr(v Value) (string, bool) {
	s, ok := v.(*StringV)
	if !ok {
		return "", false
	}
	bs := make([]byte, len(s.b))
	for i, t := range s.b {
		if !t.isConst {
			return "", false
		}
		bs[i] = byte(t.c)
	}
	return string(bs), true
}

func (ex *Exec) constVal(c *ssa.Const) Value {
	t := c.Type()
	if c.Value == nil {
		return ex.zero(t)
	}
	switch u := t.Underlying().(type) {
	case *types.Basic:
		switch {
		case u.Info()&types.IsBoolean != 0:
			return ex.pool.Bool(constant.BoolVal(c.Value))
		case u.Info()&types.IsInteger != 0:
			if isSigned(t) {
				return ex.pool.BV(width(u), uint64(c.Int64()))
			}
			return ex.pool.BV(width(u), c.Uint64())
		case u.Info()&types.IsFloat != 0:
			return ex.pool.F64(c.Float64())
		case u.Info()&types.IsString != 0:
			return ex.strVal(constant.StringVal(c.Value))
		}
	}
	panic(pathAbort{why: "const: unsupported " + c.String(), incomplete: true})
}

func (ex *Exec) global(g *ssa.Global) *Cell {
	c, ok := ex.globals[g]
	if !ok {
		c = ex.newCell(ex.zero(g.Type().(*types.Pointer).Elem()))
		c.tag = "global " + g.String()
		if g.Pkg != nil && strings.HasPrefix(g.Pkg.Pkg.Path(), nutsMod) && !strings.HasPrefix(g.Name(), "v") && !strings.HasPrefix(g.Name(), "init$") && g.Pos().IsValid() &&
			!strings.Contains(ex.eng.prog.Fset.Position(g.Pos()).Filename, "zz_verif_") {
			c.global, c.shared = true, true
		}
		ex.globals[g] = c
		// lazily give sentinel errors of uninitialised packages a unique identity
		if g.Pkg != nil && !ex.eng.shouldInit(g.Pkg.Pkg.Path()) {
			if types.Identical(g.Type().(*types.Pointer).Elem(), ex.eng.errorType) {
				c.v = &IfaceV{t: ex.eng.opaqueErrPtr, v: ex.newCell(&StructV{f: []*Cell{{v: ex.strVal(g.String())}}})}
			}
		}
	}
	return c
}

func (ex *Exec) get(fr *Frame, v ssa.Value) Value {
	switch x := v.(type) {
	case *ssa.Const:
		return ex.constVal(x)
	case *ssa.Global:
		return ex.global(x)
	case *ssa.Function:
		return &FuncV{fn: x}
	case *ssa.Builtin:
		return &FuncV{bi: x}
	}
	i, ok := fr.info.idx[v]
	if !ok {
		panic(pathAbort{why: "unbound value " + v.Name() + " in " + fr.fn.String(), incomplete: true})
	}
	return fr.env[i]
}

func (ex *Exec) set(fr *Frame, v ssa.Value, val Value) {
	fr.env[fr.info.idx[v]] = val
}

func (ex *Exec) concreteInt(v Value, what string) int {
	t := v.(*Term)
	if !t.isConst {
		return ex.concretise(t, what)
	}
	return int(sext(t.c, t.w))
}

// concretise turns a symbolic integer into a concrete one by forking over its feasible values
// (solver-enumerated, capped).
func (ex *Exec) concretise(t *Term, what string) int {
	if t.isConst {
		return int(sext(t.c, t.w))
	}
	for n := 0; n < ex.eng.concCap; n++ {
		idx := len(ex.taken)
		if idx < len(ex.decisions) {
			d := ex.decisions[idx]
			eq := ex.pool.Bin("=", t, ex.pool.BV(t.w, uint64(d.V)))
			ex.take(eq, d)
			if d.B {
				return int(d.V)
			}
			continue
		}
		// need a model value of t
		var cur uint64
		got := false
		if ex.modelValid {
			if v, ok := ex.pool.Eval(t, ex.model, map[*Term]uint64{}); ok {
				cur, got = v, true
			}
		}
		if !got {
			var sb strings.Builder
			ex.pool.emit(t, &sb)
			ex.s.send(sb.String())
			if r := ex.s.Check(); r != "sat" {
				if r == "unknown" {
					ex.incomplete = "solver unknown/timeout"
				}
				panic(pathAbort{why: "concretise: pc not sat (" + r + ")", incomplete: r == "unknown"})
			}
			vals, ok := ex.s.Values([]string{t.ref()})
			if !ok {
				panic(pathAbort{why: "concretise: no value", incomplete: true})
			}
			ex.fetchModel()
			cur = vals[0]
		}
		sv := sext(cur, t.w)
		eq := ex.pool.Bin("=", t, ex.pool.BV(t.w, cur))
		// other values feasible?
		if ex.checkWith(ex.pool.Not(eq), false) == "sat" {
			ex.forks++
			alt := append(append([]Decision{}, ex.taken...), Decision{B: false, V: sv})
			ex.pending = append(ex.pending, alt)
		}
		ex.take(eq, Decision{B: true, V: sv})
		return int(sv)
	}
	panic(pathAbort{why: "concretise: more than cap values for " + what, incomplete: true})
}

func (ex *Exec) arrLen(a *ArrayV) int {
	if a.lazy > 0 {
		return a.lazy
	}
	return len(a.e)
}

func (ex *Exec) elem(a *ArrayV, i int) *Cell {
	if i < len(a.e) {
		return a.e[i]
	}
	if i >= a.lazy {
		panic(fmt.Sprintf("engine: elem %d out of %d", i, ex.arrLen(a)))
	}
	if i > 1<<16 {
		panic(pathAbort{why: "touching far element of a huge lazy allocation", incomplete: true})
	}
	for len(a.e) <= i {
		a.e = append(a.e, &Cell{v: ex.pool.BV(8, 0)})
	}
	return a.e[i]
}

// ---- function calls ----

func (ex *Exec) call(fn *ssa.Function, args []Value) Value {
	if r, ok := ex.intrinsic(fn, args); ok {
		return r
	}
	if rep, ok := ex.eng.replace[fn]; ok {
		fn = rep
	}
	if fn.Blocks == nil {
		panic(pathAbort{why: "no body: " + fn.String(), incomplete: true})
	}
	if ex.depth > 400 {
		panic(pathAbort{why: "call depth", incomplete: true})
	}
	name := fn.String()
	if !ex.funcs[name] {
		ex.funcs[name] = true
	}
	info := infoOf(fn)
	fr := &Frame{fn: fn, info: info, env: make([]Value, info.n), caller: ex.cur}
	for i := range fn.Params {
		fr.env[i] = args[i]
	}
	for i := range fn.FreeVars {
		fr.env[len(fn.Params)+i] = args[len(fn.Params)+i]
	}
	ex.depth++
	saved := ex.cur
	ex.cur = fr
	defer func() { ex.cur = saved; ex.depth-- }()
	return ex.runFrame(fr)
}

// runFrame executes a frame, handling panics/recover for its deferred calls.
func (ex *Exec) runFrame(fr *Frame) (ret Value) {
	var pan *goPanic
	func() {
		defer func() {
			if r := recover(); r != nil {
				if gp, ok := r.(*goPanic); ok {
					pan = gp
					return
				}
				panic(r)
			}
		}()
		ret = ex.run(fr, fr.fn.Blocks[0])
	}()
	if pan == nil {
		return ret
	}
	// a Go panic is propagating through this frame: run its defers
	if len(fr.defers) == 0 {
		panic(pan)
	}
	savedP, savedR := ex.panicking, ex.recovered
	ex.panicking, ex.recovered = pan, false
	ex.cur = fr
	ex.runDefers(fr)
	rec := ex.recovered
	ex.panicking, ex.recovered = savedP, savedR
	if !rec {
		panic(pan)
	}
	if fr.fn.Recover != nil {
		return ex.run(fr, fr.fn.Recover)
	}
	// no named results: return zero values
	res := fr.fn.Signature.Results()
	switch res.Len() {
	case 0:
		return nil
	case 1:
		return ex.zero(res.At(0).Type())
	}
	return ex.zero(res)
}

func (ex *Exec) runDefers(fr *Frame) {
	for len(fr.defers) > 0 {
		d := fr.defers[len(fr.defers)-1]
		fr.defers = fr.defers[:len(fr.defers)-1]
		if d.recv != nil || d.method != nil {
			ex.invoke(d.recv, d.method, d.args)
		} else {
			ex.callValue(d.fv, d.args)
		}
	}
}

func (ex *Exec) callValue(fv *FuncV, args []Value) Value {
	if fv == nil {
		ex.rtPanic("invalid memory address or nil pointer dereference (nil func)")
	}
	if fv.bi != nil {
		return ex.builtin(fv.bi.Name(), args, nil)
	}
	return ex.call(fv.fn, append(append([]Value{}, args...), fv.free...))
}

func (ex *Exec) invoke(recv *IfaceV, m *types.Func, args []Value) Value {
	if recv == nil {
		ex.rtPanic("invalid memory address or nil pointer dereference (nil interface method call)")
	}
	fn := ex.eng.prog.LookupMethod(recv.t, m.Pkg(), m.Name())
	if fn == nil {
		panic(pathAbort{why: "no method " + m.Name() + " on " + recv.t.String(), incomplete: true})
	}
	return ex.call(fn, append([]Value{recv.v}, args...))
}

func (ex *Exec) doCall(fr *Frame, c *ssa.CallCommon) Value {
	args := make([]Value, 0, len(c.Args)+1)
	for _, a := range c.Args {
		args = append(args, ex.get(fr, a))
	}
	if c.IsInvoke() {
		recv, _ := ex.get(fr, c.Value).(*IfaceV)
		return ex.invoke(recv, c.Method, args)
	}
	switch f := c.Value.(type) {
	case *ssa.Builtin:
		return ex.builtin(f.Name(), args, c)
	case *ssa.Function:
		return ex.call(f, args)
	}
	fv, _ := ex.get(fr, c.Value).(*FuncV)
	return ex.callValue(fv, args)
}

// ---- main interpreter loop ----

func (ex *Exec) run(fr *Frame, b *ssa.BasicBlock) Value {
	var prev *ssa.BasicBlock
	for {
		var next *ssa.BasicBlock
		// phis are evaluated in parallel
		nphi := 0
		for _, ins := range b.Instrs {
			if _, ok := ins.(*ssa.Phi); ok {
				nphi++
			} else {
				break
			}
		}
		if nphi > 0 {
			vals := make([]Value, nphi)
			pi := -1
			for i, p := range b.Preds {
				if p == prev {
					pi = i
					break
				}
			}
			if pi < 0 {
				panic(pathAbort{why: "phi without predecessor in " + fr.fn.String(), incomplete: true})
			}
			for i := 0; i < nphi; i++ {
				vals[i] = ex.get(fr, b.Instrs[i].(*ssa.Phi).Edges[pi])
			}
			for i := 0; i < nphi; i++ {
				ex.set(fr, b.Instrs[i].(*ssa.Phi), vals[i])
			}
		}
		if len(b.Preds) > 1 {
			// unwinding assertion: visits of one loop head within one activation of the function
			if fr.loops == nil {
				fr.loops = map[*ssa.BasicBlock]int{}
			}
			fr.loops[b]++
			if fr.loops[b] > ex.eng.loopCap {
				panic(pathAbort{why: "unwind limit at " + fr.fn.String(), incomplete: true})
			}
		}
		for _, ins := range b.Instrs[nphi:] {
			ex.steps++
			if ex.steps > ex.eng.stepCap {
				panic(pathAbort{why: "step limit", incomplete: true})
			}
			if p := ins.Pos(); p.IsValid() {
				fr.pos = p
			}
			switch x := ins.(type) {
			case *ssa.Alloc:
				c := ex.newCell(ex.zero(x.Type().(*types.Pointer).Elem()))
				ex.set(fr, x, c)
			case *ssa.FieldAddr:
				p, _ := ex.get(fr, x.X).(*Cell)
				if p == nil {
					ex.rtPanic("invalid memory address or nil pointer dereference")
				}
				sv, ok := p.v.(*StructV)
				if !ok {
					panic(pathAbort{why: fmt.Sprintf("FieldAddr on %T in %s", p.v, fr.fn), incomplete: true})
				}
				fc := sv.f[x.Field]
				if ex.tracing && fc.shared && (fc.tag == "" || fc.tag == "shared") {
					if st, ok := x.X.Type().Underlying().(*types.Pointer).Elem().Underlying().(*types.Struct); ok {
						fc.tag = st.Field(x.Field).Name()
						if strings.HasPrefix(p.tag, "opt") {
							fc.tag = "opt." + fc.tag
						}
					}
				}
				ex.set(fr, x, fc)
			case *ssa.Field:
				ex.set(fr, x, copyVal(ex.get(fr, x.X).(*StructV).f[x.Field].v))
			case *ssa.UnOp:
				ex.set(fr, x, ex.unop(fr, x))
			case *ssa.BinOp:
				ex.set(fr, x, ex.binop(x.Op, ex.get(fr, x.X), ex.get(fr, x.Y), x.X.Type()))
			case *ssa.Store:
				p, _ := ex.get(fr, x.Addr).(*Cell)
				if p == nil {
					ex.rtPanic("invalid memory address or nil pointer dereference")
				}
				ex.access(p, true)
				assign(p, ex.get(fr, x.Val))
			case *ssa.Lookup:
				ex.set(fr, x, ex.lookup(fr, x))
			case *ssa.MapUpdate:
				ex.mapUpdate(ex.get(fr, x.Map).(*MapV), ex.get(fr, x.Key), ex.get(fr, x.Value))
			case *ssa.Extract:
				ex.set(fr, x, ex.get(fr, x.Tuple).(Tuple)[x.Index])
			case *ssa.MakeMap:
				ex.nmaps++
				ex.set(fr, x, &MapV{id: ex.nmaps})
			case *ssa.MakeSlice:
				ex.set(fr, x, ex.makeSlice(fr, x))
			case *ssa.MakeClosure:
				fv := &FuncV{fn: x.Fn.(*ssa.Function)}
				for _, b := range x.Bindings {
					fv.free = append(fv.free, ex.get(fr, b))
				}
				ex.set(fr, x, fv)
			case *ssa.IndexAddr:
				ex.set(fr, x, ex.indexAddr(fr, x))
			case *ssa.Index:
				ex.set(fr, x, ex.index(fr, x))
			case *ssa.Slice:
				ex.set(fr, x, ex.slice(fr, x))
			case *ssa.Convert:
				ex.set(fr, x, ex.convert(ex.get(fr, x.X), x.X.Type(), x.Type()))
			case *ssa.ChangeType:
				ex.set(fr, x, ex.get(fr, x.X))
			case *ssa.ChangeInterface:
				ex.set(fr, x, ex.get(fr, x.X))
			case *ssa.MakeInterface:
				ex.set(fr, x, &IfaceV{t: x.X.Type(), v: copyVal(ex.get(fr, x.X))})
			case *ssa.TypeAssert:
				ex.set(fr, x, ex.typeAssert(fr, x))
			case *ssa.Call:
				fr.pos = x.Pos()
				ex.set(fr, x, ex.doCall(fr, &x.Call))
				ex.cur = fr
			case *ssa.Defer:
				d := deferred{}
				for _, a := range x.Call.Args {
					d.args = append(d.args, ex.get(fr, a))
				}
				if x.Call.IsInvoke() {
					d.recv, _ = ex.get(fr, x.Call.Value).(*IfaceV)
					d.method = x.Call.Method
					if d.recv == nil {
						// Go evaluates the method value at defer time: nil interface panics here
						ex.rtPanic("invalid memory address or nil pointer dereference (defer on nil interface)")
					}
				} else {
					d.fv, _ = ex.get(fr, x.Call.Value).(*FuncV)
				}
				fr.defers = append(fr.defers, d)
			case *ssa.RunDefers:
				ex.runDefers(fr)
				ex.cur = fr
			case *ssa.Range:
				ex.set(fr, x, ex.rangeIter(ex.get(fr, x.X)))
			case *ssa.Next:
				ex.set(fr, x, ex.next(ex.get(fr, x.Iter).(*RangeIter), x))
			case *ssa.Return:
				switch len(x.Results) {
				case 0:
					return nil
				case 1:
					return ex.get(fr, x.Results[0])
				}
				t := make(Tuple, len(x.Results))
				for i, r := range x.Results {
					t[i] = ex.get(fr, r)
				}
				return t
			case *ssa.Jump:
				next = b.Succs[0]
			case *ssa.If:
				if ex.branch(ex.get(fr, x.Cond).(*Term)) {
					next = b.Succs[0]
				} else {
					next = b.Succs[1]
				}
			case *ssa.Panic:
				v, _ := ex.get(fr, x.X).(*IfaceV)
				panic(&goPanic{val: v, msg: "panic: " + ex.describePanic(v), where: ex.where()})
			case *ssa.DebugRef:
			default:
				panic(pathAbort{why: fmt.Sprintf("unsupported instr %T in %s", ins, fr.fn), incomplete: true})
			}
		}
		if next == nil {
			panic(pathAbort{why: "fell off block in " + fr.fn.String(), incomplete: true})
		}
		prev, b = b, next
	}
}

func (ex *Exec) describePanic(v *IfaceV) string {
	if v == nil {
		return "nil"
	}
	if s, ok := ex.concreteStr(v.v); ok {
		return s
	}
	return v.t.String()
}

func (ex *Exec) makeSlice(fr *Frame, x *ssa.MakeSlice) Value {
	ln := ex.get(fr, x.Len).(*Term)
	cp := ex.get(fr, x.Cap).(*Term)
	p := ex.pool
	ln = ex.ext64(ln, x.Len.Type())
	cp = ex.ext64(cp, x.Cap.Type())
	ok := p.And(p.Bin("bvsle", p.BV(64, 0), ln), p.Bin("bvsle", ln, cp))
	ex.require(ok, "makeslice: len out of range")
	et := x.Type().Underlying().(*types.Slice).Elem()
	// the runtime refuses cap*elemsize above maxAlloc (1<<48 on linux/amd64) with a panic
	if sz := goSizes.Sizeof(et); sz > 0 && !cp.isConst {
		ex.require(p.Bin("bvsle", cp, p.BV(64, uint64((1<<48)/sz))), "makeslice: cap out of range")
	}
	l, c := ex.concretise(ln, "make len"), ex.concretise(cp, "make cap")
	return ex.newSlice(et, l, c)
}

var goSizes = types.SizesFor("gc", "amd64")

func (ex *Exec) newSlice(et types.Type, l, c int) *SliceV {
	arr := &ArrayV{}
	if c > ex.eng.allocCap {
		if b, ok := et.Underlying().(*types.Basic); ok && b.Kind() == types.Uint8 {
			arr.lazy = c
			return &SliceV{arr: arr, off: 0, ln: l, cp: c}
		}
		panic(pathAbort{why: fmt.Sprintf("allocation of %d elements", c), incomplete: true})
	}
	arr.e = make([]*Cell, c)
	for i := 0; i < c; i++ {
		arr.e[i] = &Cell{v: ex.zero(et)}
	}
	return &SliceV{arr: arr, off: 0, ln: l, cp: c}
}

func (ex *Exec) typeAssert(fr *Frame, x *ssa.TypeAssert) Value {
	iv, _ := ex.get(fr, x.X).(*IfaceV)
	okb := false
	var res Value
	if iv != nil {
		if it, isIface := x.AssertedType.Underlying().(*types.Interface); isIface {
			okb = types.Implements(iv.t, it)
			res = iv
		} else {
			okb = types.Identical(iv.t, x.AssertedType)
			res = iv.v
		}
	}
	if x.CommaOk {
		if okb {
			return Tuple{copyVal(res), ex.pool.Bool(true)}
		}
		return Tuple{ex.zero(x.AssertedType), ex.pool.Bool(false)}
	}
	if !okb {
		ex.rtPanic("interface conversion failed")
	}
	return copyVal(res)
}

func (ex *Exec) valEq(a, b Value) *Term {
	p := ex.pool
	switch x := a.(type) {
	case *Term:
		y, ok := b.(*Term)
		if !ok {
			return p.Bool(false)
		}
		if x.w == FW {
			return p.FCmp("fp.eq", x, y)
		}
		return p.Bin("=", x, y)
	case *StringV:
		y, ok := b.(*StringV)
		if !ok {
			return p.Bool(false) // differently represented dynamic values (e.g. a runtime error vs an error pointer)
		}
		return ex.termsEq(x.b, y.b)
	case *StructV:
		y, ok := b.(*StructV)
		if !ok {
			return p.Bool(false)
		}
		r := p.Bool(true)
		for i := range x.f {
			r = p.And(r, ex.valEq(x.f[i].v, y.f[i].v))
		}
		return r
	case *ArrayV:
		y, ok := b.(*ArrayV)
		if !ok {
			return p.Bool(false)
		}
		r := p.Bool(true)
		for i := range x.e {
			r = p.And(r, ex.valEq(x.e[i].v, y.e[i].v))
		}
		return r
	case *IfaceV:
		y, _ := b.(*IfaceV)
		if x == nil || y == nil {
			return p.Bool(x == nil && y == nil)
		}
		if !types.Identical(x.t, y.t) {
			return p.Bool(false)
		}
		return ex.valEq(x.v, y.v)
	case *Cell:
		y, _ := b.(*Cell)
		return p.Bool(x == y)
	case nil:
		return p.Bool(isNilVal(b))
	}
	if isNilVal(a) || isNilVal(b) {
		return p.Bool(isNilVal(a) && isNilVal(b))
	}
	return p.Bool(a == b)
}

func (ex *Exec) termsEq(x, y []*Term) *Term {
	p := ex.pool
	if len(x) != len(y) {
		return p.Bool(false)
	}
	if len(x) == 0 {
		return p.Bool(true)
	}
	if len(x) <= 8 {
		return p.Bin("=", p.Concat(x), p.Concat(y))
	}
	r := p.Bool(true)
	for i := 0; i < len(x); i += 8 {
		j := i + 8
		if j > len(x) {
			j = len(x)
		}
		r = p.And(r, p.Bin("=", p.Concat(x[i:j]), p.Concat(y[i:j])))
	}
	return r
}

// termsLess builds x < y (lexicographic, unsigned bytes); orEq makes it x <= y.
func (ex *Exec) termsLess(x, y []*Term, orEq bool) *Term {
	p := ex.pool
	n := len(x)
	if len(y) < n {
		n = len(y)
	}
	// result when the common prefix is equal
	var tail *Term
	switch {
	case len(x) < len(y):
		tail = p.Bool(true)
	case len(x) > len(y):
		tail = p.Bool(false)
	default:
		tail = p.Bool(orEq)
	}
	if n == 0 {
		return tail
	}
	if n <= 8 {
		cx, cy := p.Concat(x[:n]), p.Concat(y[:n])
		if tail.c != 0 {
			return p.Bin("bvule", cx, cy)
		}
		return p.Bin("bvult", cx, cy)
	}
	res := tail
	for i := n - 1; i >= 0; i-- {
		res = p.IteB(p.Bin("bvult", x[i], y[i]), p.Bool(true), p.IteB(p.Bin("bvult", y[i], x[i]), p.Bool(false), res))
	}
	return res
}

// termsCmp models bytes.Compare: -1/0/+1 as a 64-bit term.
func (ex *Exec) termsCmp(x, y []*Term) *Term {
	p := ex.pool
	lt := ex.termsLess(x, y, false)
	eq := ex.termsEq(x, y)
	return p.Ite(lt, p.BV(64, ^uint64(0)), p.Ite(eq, p.BV(64, 0), p.BV(64, 1)))
}

func (ex *Exec) sliceTerms(a *SliceV) []*Term {
	if a == nil {
		return nil
	}
	r := make([]*Term, a.ln)
	for i := 0; i < a.ln; i++ {
		r[i] = ex.elem(a.arr, a.off+i).v.(*Term)
	}
	return r
}

func (ex *Exec) bytesToSlice(ts []*Term) *SliceV {
	arr := &ArrayV{e: make([]*Cell, len(ts))}
	for i, t := range ts {
		arr.e[i] = &Cell{v: t}
	}
	return &SliceV{arr: arr, ln: len(ts), cp: len(ts)}
}

func (ex *Exec) mapFind(m *MapV, k Value) int {
	if m == nil {
		return -1
	}
	for i, mk := range m.keys {
		if ex.branch(ex.valEq(mk, k)) {
			return i
		}
	}
	return -1
}

func (ex *Exec) mapUpdate(m *MapV, k, v Value) {
	if m == nil {
		ex.rtPanic("assignment to entry in nil map")
	}
	ex.accessMap(m, k, true)
	if i := ex.mapFind(m, k); i >= 0 {
		assign(m.vals[i], v)
		return
	}
	m.keys = append(m.keys, copyVal(k))
	m.vals = append(m.vals, &Cell{v: copyVal(v)})
}

func (ex *Exec) lookup(fr *Frame, x *ssa.Lookup) Value {
	xv := ex.get(fr, x.X)
	switch m := xv.(type) {
	case *MapV:
		k := ex.get(fr, x.Index)
		et := x.X.Type().Underlying().(*types.Map).Elem()
		ex.accessMap(m, k, false)
		i := ex.mapFind(m, k)
		var found Value
		if i >= 0 {
			found = copyVal(m.vals[i].v)
		} else {
			found = ex.zero(et)
		}
		if x.CommaOk {
			return Tuple{found, ex.pool.Bool(i >= 0)}
		}
		return found
	case *StringV:
		idx := ex.ext64(ex.get(fr, x.Index).(*Term), x.Index.Type())
		i := ex.checkedIndex(idx, len(m.b))
		return m.b[i]
	}
	panic(pathAbort{why: "lookup on " + describe(xv), incomplete: true})
}

// checkedIndex asserts 0 <= idx < n and returns a concrete index (forking if symbolic).
// ext64 widens an integer to 64 bits according to the signedness of its Go type.
func (ex *Exec) ext64(t *Term, typ types.Type) *Term {
	if t.w == 64 {
		return t
	}
	if isSigned(typ) {
		return ex.pool.SExt(t, 64)
	}
	return ex.pool.ZExt(t, 64)
}

func (ex *Exec) checkedIndex(idx *Term, n int) int {
	p := ex.pool
	if idx.w != 64 {
		panic("checkedIndex: index not widened")
	}
	inb := p.And(p.Bin("bvsle", p.BV(64, 0), idx), p.Bin("bvslt", idx, p.BV(64, uint64(n))))
	ex.require(inb, fmt.Sprintf("index out of range [..] with length %d", n))
	if idx.isConst {
		return int(idx.c)
	}
	for i := 0; i < n-1; i++ {
		if ex.branch(p.Bin("=", idx, p.BV(64, uint64(i)))) {
			return i
		}
	}
	return n - 1
}

func (ex *Exec) unop(fr *Frame, x *ssa.UnOp) Value {
	v := ex.get(fr, x.X)
	switch x.Op {
	case token.MUL:
		p, _ := v.(*Cell)
		if p == nil {
			ex.rtPanic("invalid memory address or nil pointer dereference")
		}
		ex.access(p, false)
		return copyVal(p.v)
	case token.NOT:
		return ex.pool.Not(v.(*Term))
	case token.SUB:
		t := v.(*Term)
		if t.w == FW {
			return ex.pool.FNeg(t)
		}
		return ex.pool.Neg(t)
	case token.XOR:
		return ex.pool.BvNot(v.(*Term))
	}
	panic(pathAbort{why: "unop " + x.Op.String(), incomplete: true})
}

func (ex *Exec) binop(op token.Token, a, b Value, t types.Type) Value {
	p := ex.pool
	ta, okA := a.(*Term)
	tb, okB := b.(*Term)
	if okA && okB && ta.w == FW {
		switch op {
		case token.LSS:
			return p.FCmp("fp.lt", ta, tb)
		case token.LEQ:
			return p.FCmp("fp.leq", ta, tb)
		case token.GTR:
			return p.FCmp("fp.lt", tb, ta)
		case token.GEQ:
			return p.FCmp("fp.leq", tb, ta)
		case token.EQL:
			return p.FCmp("fp.eq", ta, tb)
		case token.NEQ:
			return p.Not(p.FCmp("fp.eq", ta, tb))
		case token.ADD:
			return p.FArith("fp.add", ta, tb)
		case token.SUB:
			return p.FArith("fp.sub", ta, tb)
		case token.MUL:
			return p.FArith("fp.mul", ta, tb)
		case token.QUO:
			return p.FArith("fp.div", ta, tb)
		}
		panic(pathAbort{why: "float binop " + op.String(), incomplete: true})
	}
	if sa, ok := a.(*StringV); ok {
		sb := b.(*StringV)
		switch op {
		case token.ADD:
			return &StringV{b: append(append(make([]*Term, 0, len(sa.b)+len(sb.b)), sa.b...), sb.b...)}
		case token.EQL:
			return ex.termsEq(sa.b, sb.b)
		case token.NEQ:
			return p.Not(ex.termsEq(sa.b, sb.b))
		case token.LSS:
			return ex.termsLess(sa.b, sb.b, false)
		case token.LEQ:
			return ex.termsLess(sa.b, sb.b, true)
		case token.GTR:
			return ex.termsLess(sb.b, sa.b, false)
		case token.GEQ:
			return ex.termsLess(sb.b, sa.b, true)
		}
	}
	if okA && okB && ta.w == 0 {
		switch op {
		case token.EQL:
			return p.Bin("=", ta, tb)
		case token.NEQ:
			return p.Not(p.Bin("=", ta, tb))
		case token.AND, token.LAND:
			return p.And(ta, tb)
		case token.OR, token.LOR:
			return p.Or(ta, tb)
		}
	}
	if okA && okB {
		signed := isSigned(t)
		switch op {
		case token.SHL, token.SHR:
			// shift count may have a different width; Go: count >= width gives 0 (or sign fill)
			cnt := tb
			if cnt.w < ta.w {
				cnt = p.ZExt(cnt, ta.w)
			} else if cnt.w > ta.w {
				// large counts saturate
				big := p.Bin("bvule", p.BV(cnt.w, uint64(ta.w)), cnt)
				cnt = p.Ite(big, p.BV(ta.w, uint64(ta.w)), p.Extract(cnt, ta.w-1, 0))
			}
			if op == token.SHL {
				return p.Bin("bvshl", ta, cnt)
			}
			if signed {
				return p.Bin("bvashr", ta, cnt)
			}
			return p.Bin("bvlshr", ta, cnt)
		}
		if ta.w != tb.w {
			panic(pathAbort{why: fmt.Sprintf("binop %s width mismatch %d/%d", op, ta.w, tb.w), incomplete: true})
		}
		switch op {
		case token.ADD:
			return p.Bin("bvadd", ta, tb)
		case token.SUB:
			return p.Bin("bvsub", ta, tb)
		case token.MUL:
			return p.Bin("bvmul", ta, tb)
		case token.QUO:
			ex.require(p.Not(p.Bin("=", tb, p.BV(tb.w, 0))), "integer divide by zero")
			if signed {
				return p.Bin("bvsdiv", ta, tb)
			}
			return p.Bin("bvudiv", ta, tb)
		case token.REM:
			ex.require(p.Not(p.Bin("=", tb, p.BV(tb.w, 0))), "integer divide by zero")
			if signed {
				return p.Bin("bvsrem", ta, tb)
			}
			return p.Bin("bvurem", ta, tb)
		case token.AND:
			return p.Bin("bvand", ta, tb)
		case token.OR:
			return p.Bin("bvor", ta, tb)
		case token.XOR:
			return p.Bin("bvxor", ta, tb)
		case token.AND_NOT:
			return p.Bin("bvand", ta, p.BvNot(tb))
		case token.EQL:
			return p.Bin("=", ta, tb)
		case token.NEQ:
			return p.Not(p.Bin("=", ta, tb))
		case token.LSS:
			if signed {
				return p.Bin("bvslt", ta, tb)
			}
			return p.Bin("bvult", ta, tb)
		case token.LEQ:
			if signed {
				return p.Bin("bvsle", ta, tb)
			}
			return p.Bin("bvule", ta, tb)
		case token.GTR:
			if signed {
				return p.Bin("bvslt", tb, ta)
			}
			return p.Bin("bvult", tb, ta)
		case token.GEQ:
			if signed {
				return p.Bin("bvsle", tb, ta)
			}
			return p.Bin("bvule", tb, ta)
		}
	}
	if op == token.EQL {
		return ex.valEq(a, b)
	}
	if op == token.NEQ {
		return p.Not(ex.valEq(a, b))
	}
	if c, isCell := a.(*Cell); isCell && op == token.XOR {
		// the standard library's noescape idiom: unsafe.Pointer(uintptr(p) ^ 0)
		if tb, ok := b.(*Term); ok && tb.isConst && tb.c == 0 {
			return c
		}
	}
	panic(pathAbort{why: fmt.Sprintf("binop %s on %s,%s", op, describe(a), describe(b)), incomplete: true})
}

func (ex *Exec) cellsOf(base Value) (arr *ArrayV, off, n int, isNil bool) {
	switch s := base.(type) {
	case *SliceV:
		if s == nil {
			return nil, 0, 0, false
		}
		return s.arr, s.off, s.ln, false
	case *Cell:
		if s == nil {
			return nil, 0, 0, true
		}
		a := s.v.(*ArrayV)
		return a, 0, ex.arrLen(a), false
	}
	panic(pathAbort{why: "cellsOf " + describe(base), incomplete: true})
}

func (ex *Exec) indexAddr(fr *Frame, x *ssa.IndexAddr) Value {
	base := ex.get(fr, x.X)
	idx := ex.ext64(ex.get(fr, x.Index).(*Term), x.Index.Type())
	arr, off, n, isNil := ex.cellsOf(base)
	if isNil {
		ex.rtPanic("invalid memory address or nil pointer dereference")
	}
	i := ex.checkedIndex(idx, n)
	return ex.elem(arr, off+i)
}

func (ex *Exec) index(fr *Frame, x *ssa.Index) Value {
	base := ex.get(fr, x.X)
	idx := ex.ext64(ex.get(fr, x.Index).(*Term), x.Index.Type())
	switch s := base.(type) {
	case *ArrayV:
		i := ex.checkedIndex(idx, len(s.e))
		return copyVal(s.e[i].v)
	case *StringV:
		i := ex.checkedIndex(idx, len(s.b))
		return s.b[i]
	}
	panic(pathAbort{why: "index on " + describe(base), incomplete: true})
}

func (ex *Exec) slice(fr *Frame, x *ssa.Slice) Value {
	base := ex.get(fr, x.X)
	p := ex.pool
	getb := func(v ssa.Value, def int) *Term {
		if v == nil {
			return p.BV(64, uint64(def))
		}
		return ex.ext64(ex.get(fr, v).(*Term), v.Type())
	}
	if s, ok := base.(*StringV); ok {
		lo, hi := getb(x.Low, 0), getb(x.High, len(s.b))
		okc := p.And(p.Bin("bvsle", p.BV(64, 0), lo), p.And(p.Bin("bvsle", lo, hi), p.Bin("bvsle", hi, p.BV(64, uint64(len(s.b))))))
		ex.require(okc, "slice bounds out of range")
		l, h := ex.concretise(lo, "slice low"), ex.concretise(hi, "slice high")
		return &StringV{b: s.b[l:h]}
	}
	var arr *ArrayV
	off, ln, cp := 0, 0, 0
	switch s := base.(type) {
	case *SliceV:
		if s != nil {
			arr, off, ln, cp = s.arr, s.off, s.ln, s.cp
		}
	case *Cell:
		if s == nil {
			ex.rtPanic("invalid memory address or nil pointer dereference")
		}
		arr = s.v.(*ArrayV)
		ln, cp = ex.arrLen(arr), ex.arrLen(arr)
	default:
		panic(pathAbort{why: "slice of " + describe(base), incomplete: true})
	}
	lo, hi, mx := getb(x.Low, 0), getb(x.High, ln), getb(x.Max, cp)
	// Go: 0 <= lo <= hi <= max <= cap
	okc := p.And(p.Bin("bvsle", p.BV(64, 0), lo), p.And(p.Bin("bvsle", lo, hi), p.And(p.Bin("bvsle", hi, mx), p.Bin("bvsle", mx, p.BV(64, uint64(cp))))))
	ex.require(okc, "slice bounds out of range")
	l, h, m := ex.concretise(lo, "slice low"), ex.concretise(hi, "slice high"), ex.concretise(mx, "slice max")
	if arr == nil {
		if _, isSlice := base.(*SliceV); isSlice {
			return (*SliceV)(nil)
		}
	}
	return &SliceV{arr: arr, off: off + l, ln: h - l, cp: m - l}
}

func (ex *Exec) convert(v Value, from, to types.Type) Value {
	p := ex.pool
	fu, tu := from.Underlying(), to.Underlying()
	switch x := v.(type) {
	case *Term:
		fb, ok1 := fu.(*types.Basic)
		tb, ok2 := tu.(*types.Basic)
		if !ok1 || !ok2 {
			break
		}
		if tb.Info()&types.IsString != 0 {
			// string(rune/byte)
			if x.isConst {
				return ex.strVal(string(rune(sext(x.c, x.w))))
			}
			// a symbolic code point below 0x80 is its own single byte; anything else is not modelled
			x64 := ex.ext64(x, from)
			if ex.branch(ex.pool.And(ex.pool.Bin("bvsle", ex.pool.BV(64, 0), x64), ex.pool.Bin("bvslt", x64, ex.pool.BV(64, 0x80)))) {
				return &StringV{b: []*Term{ex.pool.Extract(x64, 7, 0)}}
			}
			panic(pathAbort{why: "string(symbolic rune >= 0x80)", incomplete: true})
		}
		fFloat, tFloat := fb.Info()&types.IsFloat != 0, tb.Info()&types.IsFloat != 0
		switch {
		case fFloat && tFloat:
			if fb.Kind() != tb.Kind() && !(fb.Kind() == types.UntypedFloat || tb.Kind() == types.UntypedFloat) {
				if tb.Kind() == types.Float32 || fb.Kind() == types.Float32 {
					panic(pathAbort{why: "float32 conversion", incomplete: true})
				}
			}
			return x
		case fFloat:
			return p.FToInt(x, width(tb))
		case tFloat:
			return p.IntToF(x, isSigned(from))
		}
		fw, tw := width(fb), width(tb)
		if fb.Kind() == types.UnsafePointer || tb.Kind() == types.UnsafePointer {
			break
		}
		if fw == tw {
			return x
		}
		if tw < fw {
			return p.Extract(x, tw-1, 0)
		}
		if isSigned(from) {
			return p.SExt(x, tw)
		}
		return p.ZExt(x, tw)
	case *StringV:
		if sl, ok := tu.(*types.Slice); ok {
			if b, ok := sl.Elem().Underlying().(*types.Basic); ok && b.Kind() == types.Uint8 {
				return ex.bytesToSlice(x.b)
			}
			panic(pathAbort{why: "string to []rune", incomplete: true})
		}
		return x
	case *SliceV:
		if b, ok := tu.(*types.Basic); ok && b.Info()&types.IsString != 0 {
			return &StringV{b: ex.sliceTerms(x)}
		}
		return x
	case *Cell:
		return x // pointer <-> unsafe.Pointer
	}
	if isNilVal(v) {
		return ex.zero(to)
	}
	panic(pathAbort{why: fmt.Sprintf("convert %s -> %s (%s)", from, to, describe(v)), incomplete: true})
}

func (ex *Exec) rangeIter(v Value) *RangeIter {
	switch x := v.(type) {
	case *MapV:
		it := &RangeIter{m: x}
		if x == nil {
			return it
		}
		ex.accessMap(x, nil, false)
		n := len(x.keys)
		rot := 0
		if n > 1 && ex.h != nil && ex.h.MapRot {
			rot = ex.choose(n, "maprot")
		}
		for i := 0; i < n; i++ {
			j := (i + rot) % n
			it.keys = append(it.keys, x.keys[j])
			it.vals = append(it.vals, copyVal(x.vals[j].v))
		}
		return it
	case *StringV:
		return &RangeIter{s: x}
	}
	panic(pathAbort{why: "range over " + describe(v), incomplete: true})
}

func (ex *Exec) next(it *RangeIter, x *ssa.Next) Value {
	p := ex.pool
	if x.IsString {
		if it.pos >= len(it.s.b) {
			return Tuple{p.Bool(false), p.BV(64, 0), p.BV(32, 0)}
		}
		b := it.s.b[it.pos]
		// ASCII only
		ex.require(p.Bin("bvult", b, p.BV(8, 0x80)), "engine: non-ASCII byte in string range (unsupported)")
		i := it.pos
		it.pos++
		return Tuple{p.Bool(true), p.BV(64, uint64(i)), p.ZExt(b, 32)}
	}
	// map: skip entries deleted during iteration
	for it.pos < len(it.keys) {
		k := it.keys[it.pos]
		v := it.vals[it.pos]
		it.pos++
		// still present? (identity of key value in the map's key list)
		present := false
		for i, mk := range it.m.keys {
			if mk == k || ex.sameKey(mk, k) {
				present = true
				v = copyVal(it.m.vals[i].v)
				break
			}
		}
		if present {
			return Tuple{p.Bool(true), k, v}
		}
	}
	tt := x.Type().(*types.Tuple)
	zk, zv := Value(nil), Value(nil)
	if t := tt.At(1).Type(); t != types.Typ[types.Invalid] {
		zk = ex.zero(t)
	}
	if t := tt.At(2).Type(); t != types.Typ[types.Invalid] {
		zv = ex.zero(t)
	}
	return Tuple{p.Bool(false), zk, zv}
}

func (ex *Exec) sameKey(a, b Value) bool {
	t := ex.valEq(a, b)
	return t.isConst && t.c != 0
}

// choose is a concrete n-way fork.
func (ex *Exec) choose(n int, what string) int {
	if n <= 1 {
		return 0
	}
	for i := 0; i < n-1; i++ {
		v := ex.fresh("ch", 0)
		if ex.branch(v) {
			return i
		}
	}
	return n - 1
}

var sizeClasses = []int{0, 8, 16, 24, 32, 48, 64, 80, 96, 112, 128, 144, 160, 176, 192, 208, 224, 240, 256, 288, 320, 352, 384, 416, 448, 480, 512, 576, 640, 704, 768, 896, 1024, 1152, 1280, 1408, 1536, 1792, 2048, 2304, 2688, 3072, 3200, 3456, 4096, 4864, 5376, 6144, 6528, 6784, 6912, 8192}

func roundupsize(n int) int {
	for _, c := range sizeClasses {
		if c >= n {
			return c
		}
	}
	return (n + 8191) / 8192 * 8192
}

func growCap(oldCap, newLen, elemSize int) int {
	newcap := oldCap
	doublecap := newcap + newcap
	if newLen > doublecap {
		newcap = newLen
	} else {
		const threshold = 256
		if oldCap < threshold {
			newcap = doublecap
		} else {
			for newcap < newLen {
				newcap += (newcap + 3*threshold) >> 2
			}
		}
	}
	if elemSize <= 0 {
		return newcap
	}
	return roundupsize(newcap*elemSize) / elemSize
}

func (ex *Exec) builtin(name string, args []Value, c *ssa.CallCommon) Value {
	p := ex.pool
	switch name {
	case "len":
		switch s := args[0].(type) {
		case *SliceV:
			if s == nil {
				return p.BV(64, 0)
			}
			return p.BV(64, uint64(s.ln))
		case *StringV:
			return p.BV(64, uint64(len(s.b)))
		case *MapV:
			if s == nil {
				return p.BV(64, 0)
			}
			ex.accessMap(s, nil, false)
			return p.BV(64, uint64(len(s.keys)))
		case *Cell:
			if s == nil {
				ex.rtPanic("invalid memory address or nil pointer dereference")
			}
			return p.BV(64, uint64(ex.arrLen(s.v.(*ArrayV))))
		case *ArrayV:
			return p.BV(64, uint64(len(s.e)))
		}
	case "cap":
		switch s := args[0].(type) {
		case *SliceV:
			if s == nil {
				return p.BV(64, 0)
			}
			return p.BV(64, uint64(s.cp))
		case *Cell:
			return p.BV(64, uint64(ex.arrLen(s.v.(*ArrayV))))
		}
	case "delete":
		m := args[0].(*MapV)
		if m != nil {
			ex.accessMap(m, args[1], true)
			if i := ex.mapFind(m, args[1]); i >= 0 {
				m.keys = append(append([]Value{}, m.keys[:i]...), m.keys[i+1:]...)
				m.vals = append(append([]*Cell{}, m.vals[:i]...), m.vals[i+1:]...)
			}
		}
		return nil
	case "append":
		s, _ := args[0].(*SliceV)
		var src []Value
		switch t := args[1].(type) {
		case *SliceV:
			if t != nil {
				for i := 0; i < t.ln; i++ {
					src = append(src, copyVal(ex.elem(t.arr, t.off+i).v))
				}
			}
		case *StringV:
			for _, b := range t.b {
				src = append(src, b)
			}
		}
		n := len(src)
		if n == 0 {
			return s
		}
		if s == nil {
			s = &SliceV{arr: &ArrayV{}}
		}
		var out *SliceV
		if s.ln+n <= s.cp {
			out = &SliceV{arr: s.arr, off: s.off, ln: s.ln + n, cp: s.cp}
		} else {
			var et types.Type
			esz := 8
			if c != nil {
				et = c.Args[0].Type().Underlying().(*types.Slice).Elem()
				esz = int(ex.eng.sizes.Sizeof(et))
			}
			ncap := growCap(s.cp, s.ln+n, esz)
			arr := &ArrayV{e: make([]*Cell, ncap)}
			for i := 0; i < s.ln; i++ {
				arr.e[i] = &Cell{v: copyVal(ex.elem(s.arr, s.off+i).v)}
			}
			for i := s.ln; i < ncap; i++ {
				if et != nil {
					arr.e[i] = &Cell{v: ex.zero(et)}
				} else {
					arr.e[i] = &Cell{}
				}
			}
			out = &SliceV{arr: arr, off: 0, ln: s.ln + n, cp: ncap}
		}
		for i := 0; i < n; i++ {
			assign(ex.elem(out.arr, out.off+s.ln+i), src[i])
		}
		return out
	case "copy":
		d, _ := args[0].(*SliceV)
		var src []Value
		switch t := args[1].(type) {
		case *SliceV:
			if t != nil {
				n := t.ln
				if d != nil && d.ln < n {
					n = d.ln
				}
				if d == nil {
					n = 0
				}
				for i := 0; i < n; i++ {
					src = append(src, copyVal(ex.elem(t.arr, t.off+i).v))
				}
			}
		case *StringV:
			for _, b := range t.b {
				src = append(src, b)
			}
		}
		n := len(src)
		if d == nil {
			n = 0
		} else if d.ln < n {
			n = d.ln
		}
		for i := 0; i < n; i++ {
			assign(ex.elem(d.arr, d.off+i), src[i])
		}
		return p.BV(64, uint64(n))
	case "recover":
		if ex.panicking != nil && !ex.recovered {
			ex.recovered = true
			return ex.panicking.val
		}
		return (*IfaceV)(nil)
	case "print", "println":
		return nil
	case "ssa:wrapnilchk":
		if isNilVal(args[0]) {
			ex.rtPanic("value method called using nil pointer")
		}
		return args[0]
	case "min", "max":
		a, b := args[0].(*Term), args[1].(*Term)
		var lt *Term
		if c != nil && isSigned(c.Args[0].Type()) {
			lt = p.Bin("bvslt", a, b)
		} else {
			lt = p.Bin("bvult", a, b)
		}
		if name == "min" {
			return p.Ite(lt, a, b)
		}
		return p.Ite(lt, b, a)
	}
	panic(pathAbort{why: "builtin " + name + " on " + describe(args[0]), incomplete: true})
}
