package main

import (
	"fmt"
	"go/types"
	"hash/crc32"
	"hash/fnv"
	"math"
	"path"
	"regexp"
	"strconv"
	"strings"

	"golang.org/x/tools/go/ssa"
)

const nutsMod = "github.com/xujiajun/nutsdb"

func inNuts(fn *ssa.Function) bool {
	return fn.Pkg != nil && strings.HasPrefix(fn.Pkg.Pkg.Path(), nutsMod)
}

func (ex *Exec) nondet(kind string, w int) *Term {
	var t *Term
	if w == FW {
		bits := ex.fresh("f", 64)
		t = ex.pool.FromBits(bits)
		ex.inputs = append(ex.inputs, Input{Kind: kind, T: bits})
		return t
	}
	t = ex.fresh(kind[:1], w)
	ex.inputs = append(ex.inputs, Input{Kind: kind, T: t})
	return t
}

func (ex *Exec) mustStr(v Value, what string) string {
	s, ok := ex.concreteStr(v)
	if !ok {
		panic(pathAbort{why: what + ": symbolic string where a concrete one is required", incomplete: true})
	}
	return s
}

func tupleErr(v Value, err Value) Tuple { return Tuple{v, err} }

// opaque error value with a unique identity
func (ex *Exec) newErr(msg string) *IfaceV {
	return &IfaceV{t: ex.eng.opaqueErrPtr, v: ex.newCell(&StructV{f: []*Cell{{v: ex.strVal(msg)}}})}
}

func (ex *Exec) intrinsic(fn *ssa.Function, args []Value) (Value, bool) {
	p := ex.pool
	name := fn.Name()
	if inNuts(fn) && strings.HasPrefix(name, "v") && fn.Signature.Recv() == nil {
		switch name {
		case "vNondetInt", "vNondetInt64":
			return ex.nondet("int64", 64), true
		case "vNondetUint64":
			return ex.nondet("uint64", 64), true
		case "vNondetUint32":
			return ex.nondet("uint32", 32), true
		case "vNondetInt32":
			return ex.nondet("int32", 32), true
		case "vNondetUint16":
			return ex.nondet("uint16", 16), true
		case "vNondetByte":
			return ex.nondet("byte", 8), true
		case "vNondetBool":
			t := ex.fresh("b", 0)
			ex.inputs = append(ex.inputs, Input{Kind: "bool", T: t})
			return t, true
		case "vNondetFloat64":
			return ex.nondet("float64", FW), true
		case "vBytes":
			n := ex.concreteInt(args[0], "vBytes")
			ts := make([]*Term, n)
			for i := range ts {
				ts[i] = ex.nondet("byte", 8)
			}
			return ex.bytesToSlice(ts), true
		case "vChoose":
			n := ex.concreteInt(args[0], "vChoose")
			i := ex.choose(n, "vChoose")
			ex.inputs = append(ex.inputs, Input{Kind: "choose", Conc: true, Val: uint64(i)})
			return p.BV(64, uint64(i)), true
		case "vAssume":
			ex.assume(args[0].(*Term), ex.callerSite())
			return nil, true
		case "vAssert":
			ex.vassert(ex.mustStr(args[0], "vAssert id"), args[1].(*Term))
			return nil, true
		case "vFail":
			ex.vassert(ex.mustStr(args[0], "vFail id"), p.Bool(false))
			return nil, true
		case "vReach":
			ex.reaches[ex.mustStr(args[0], "vReach id")]++
			return nil, true
		case "vKnown":
			id := ex.mustStr(args[0], "vKnown id")
			if ex.eng.knownOpen[id] {
				ex.known = append(ex.known, knownRegion{id: id, region: args[1].(*Term)})
			}
			return nil, true
		case "vObserveInt", "vObserveBool", "vObserveBytes", "vObserveStr", "vObserveFloat":
			ov := args[1]
			if sl, ok := ov.(*SliceV); ok {
				// snapshot: the observation is the content at the time of the call (as in the native run)
				ov = &StringV{b: append([]*Term{}, ex.sliceTerms(sl)...)}
			}
			ex.observes = append(ex.observes, struct {
				tag string
				v   Value
			}{ex.mustStr(args[0], "vObserve tag"), ov})
			return nil, true
		case "vAnd":
			return p.And(args[0].(*Term), args[1].(*Term)), true
		case "vOr":
			return p.Or(args[0].(*Term), args[1].(*Term)), true
		case "vNot":
			return p.Not(args[0].(*Term)), true
		case "vImplies":
			return p.Implies(args[0].(*Term), args[1].(*Term)), true
		case "vIte", "vIteInt", "vIteByte":
			return p.Ite(args[0].(*Term), args[1].(*Term), args[2].(*Term)), true
		case "vEqBytes":
			return ex.termsEq(ex.sliceTerms(asSlice(args[0])), ex.sliceTerms(asSlice(args[1]))), true
		case "vLessBytes":
			return ex.termsLess(ex.sliceTerms(asSlice(args[0])), ex.sliceTerms(asSlice(args[1])), false), true
		case "vLeqBytes":
			return ex.termsLess(ex.sliceTerms(asSlice(args[0])), ex.sliceTerms(asSlice(args[1])), true), true
		case "vEqStr":
			return ex.termsEq(args[0].(*StringV).b, args[1].(*StringV).b), true
		case "vLessStr":
			return ex.termsLess(args[0].(*StringV).b, args[1].(*StringV).b, false), true
		case "vHasPrefix":
			a, b := ex.sliceTerms(asSlice(args[0])), ex.sliceTerms(asSlice(args[1]))
			if len(b) > len(a) {
				return p.Bool(false), true
			}
			return ex.termsEq(a[:len(b)], b), true
		case "vParam":
			k := ex.mustStr(args[0], "vParam")
			v, ok := ex.h.Params[k]
			if !ok {
				panic(pathAbort{why: "vParam: no parameter " + k, incomplete: true})
			}
			return p.BV(64, uint64(v)), true
		case "vEngine":
			return p.Bool(true), true
		case "vIsConcrete":
			t, ok := args[0].(*Term)
			return p.Bool(ok && t.isConst), true
		case "vTrace":
			ex.tracing = args[0].(*Term).c != 0
			return nil, true
		case "vShare":
			// vShare(root interface{}): mark the object graph below root as shared state
			if iv, ok := args[0].(*IfaceV); ok && iv != nil {
				ex.share(iv.v, "shared", map[interface{}]bool{})
			} else {
				ex.share(args[0], "shared", map[interface{}]bool{})
			}
			return nil, true
		case "vFileAccess":
			if ex.tracing {
				saved := ex.cur
				// attribute the access to the code that called into the file-system stub
				for ex.cur != nil && ex.inHarnessFrame(ex.cur) {
					ex.cur = ex.cur.caller
				}
				if ex.cur != nil {
					ex.checkAccess(args[0].(*Term).c != 0, false, "file")
				}
				ex.cur = saved
			}
			return nil, true
		case "vLockHeld":
			// vLockHeld(mu *sync.RWMutex) int: 0 free, 1 read, 2 write
			c, _ := args[0].(*Cell)
			st := ex.locks[c]
			switch {
			case st == nil:
				return p.BV(64, 0), true
			case st.writer:
				return p.BV(64, 2), true
			case st.readers > 0:
				return p.BV(64, 1), true
			}
			return p.BV(64, 0), true
		case "vCrcOf":
			return ex.crcOf(crcMessage{msg: ex.sliceTerms(asSlice(args[0]))}), true
		}
	}
	full := fn.String()
	switch full {
	case "bytes.Compare", "internal/bytealg.Compare":
		return ex.termsCmp(ex.sliceTerms(asSlice(args[0])), ex.sliceTerms(asSlice(args[1]))), true
	case "bytes.Equal", "internal/bytealg.Equal":
		return ex.termsEq(ex.sliceTerms(asSlice(args[0])), ex.sliceTerms(asSlice(args[1]))), true
	case "internal/bytealg.MakeNoZero":
		// contents are unspecified in Go; zeroed memory is one of the allowed results and the callers
		// (strings.Builder) overwrite before they read
		n := ex.concretise(args[0].(*Term), "MakeNoZero len")
		return ex.newSlice(types.Typ[types.Uint8], n, n), true
	case "strings.Compare", "internal/bytealg.CompareString":
		return ex.termsCmp(args[0].(*StringV).b, args[1].(*StringV).b), true
	case "hash/crc32.ChecksumIEEE":
		return ex.crcOf(ex.crcMessageOf(asSlice(args[0]))), true
	case "hash/crc32.Update":
		add := ex.crcMessageOf(asSlice(args[2]))
		crc := args[0].(*Term)
		if len(add.msg) == 0 && add.zeros == 0 {
			return crc, true
		}
		base, ok := ex.crcMsg[crc]
		if !ok {
			if crc.isConst && crc.c == 0 {
				base = crcMessage{}
			} else {
				panic(pathAbort{why: "crc32.Update on a checksum of unknown provenance", incomplete: true})
			}
		}
		// implicit zeros of lazy buffers are only counted (see crcOf: such digests are distinct per total length)
		m := crcMessage{msg: append(append([]*Term{}, base.msg...), add.msg...), zeros: base.zeros + add.zeros}
		return ex.crcOf(m), true
	case "fmt.Errorf", "github.com/pkg/errors.Errorf":
		return ex.newErr("fmt.Errorf"), true
	case "fmt.Sprintf", "fmt.Sprint", "fmt.Sprintln":
		return ex.strVal("<fmt>"), true
	case "fmt.Println", "fmt.Printf", "fmt.Print", "fmt.Fprintf", "fmt.Fprintln", "fmt.Fprint":
		return Tuple{p.BV(64, 0), (*IfaceV)(nil)}, true
	case "log.Println", "log.Printf", "log.Print":
		return nil, true
	case "log.Fatal", "log.Fatalf", "log.Fatalln", "os.Exit":
		panic(&goPanic{val: &IfaceV{t: types.Typ[types.String], v: ex.strVal("os.Exit")}, msg: "process exit via " + full, where: ex.where()})
	case "strconv.Itoa":
		if t := args[0].(*Term); t.isConst {
			return ex.strVal(strconv.Itoa(int(sext(t.c, 64)))), true
		}
		panic(pathAbort{why: "strconv.Itoa on a symbolic integer", incomplete: true})
	case "strconv.FormatInt":
		t, b := args[0].(*Term), args[1].(*Term)
		if t.isConst && b.isConst {
			return ex.strVal(strconv.FormatInt(sext(t.c, 64), int(b.c))), true
		}
		panic(pathAbort{why: "strconv.FormatInt on a symbolic integer", incomplete: true})
	case "strconv.FormatFloat":
		f := args[0].(*Term)
		if f.isConst && args[1].(*Term).isConst && args[2].(*Term).isConst && args[3].(*Term).isConst {
			s := strconv.FormatFloat(math.Float64frombits(f.c), byte(args[1].(*Term).c), int(sext(args[2].(*Term).c, 64)), int(args[3].(*Term).c))
			return ex.strVal(s), true
		}
		panic(pathAbort{why: "strconv.FormatFloat on a symbolic float", incomplete: true})
	case "strconv.Atoi":
		if s, ok := ex.concreteStr(args[0]); ok {
			v, err := strconv.Atoi(s)
			return Tuple{p.BV(64, uint64(v)), ex.nativeErr(err)}, true
		}
		return ex.symAtoi(args[0].(*StringV)), true
	case "strconv.ParseInt":
		if s, ok := ex.concreteStr(args[0]); ok && args[1].(*Term).isConst && args[2].(*Term).isConst {
			v, err := strconv.ParseInt(s, int(args[1].(*Term).c), int(args[2].(*Term).c))
			return Tuple{p.BV(64, uint64(v)), ex.nativeErr(err)}, true
		}
		if args[1].(*Term).isConst && args[1].(*Term).c == 10 {
			return ex.symAtoi(args[0].(*StringV)), true
		}
		panic(pathAbort{why: "strconv.ParseInt on symbolic input", incomplete: true})
	case "strconv.ParseFloat":
		if s, ok := ex.concreteStr(args[0]); ok {
			v, err := strconv.ParseFloat(s, 64)
			return Tuple{p.F64(v), ex.nativeErr(err)}, true
		}
		panic(pathAbort{why: "strconv.ParseFloat on symbolic input", incomplete: true})
	case "strings.Split":
		return ex.split(args[0].(*StringV), ex.mustStr(args[1], "strings.Split sep"), -1), true
	case "strings.SplitN":
		n, ok := args[2].(*Term)
		if !ok || !n.isConst {
			panic(pathAbort{why: "strings.SplitN with a symbolic count", incomplete: true})
		}
		return ex.split(args[0].(*StringV), ex.mustStr(args[1], "strings.SplitN sep"), int(int64(n.c))), true
	case "strings.Join":
		sl, sep := asSlice(args[0]), args[1].(*StringV)
		out := &StringV{}
		if sl != nil {
			for i := 0; i < sl.ln; i++ {
				if i > 0 {
					out.b = append(out.b, sep.b...)
				}
				out.b = append(out.b, ex.elem(sl.arr, sl.off+i).v.(*StringV).b...)
			}
		}
		return out, true
	case "strings.Contains":
		return ex.contains(args[0].(*StringV), ex.mustStr(args[1], "strings.Contains substr")), true
	case "strings.TrimSuffix":
		if s, ok := ex.concreteStr(args[0]); ok {
			return ex.strVal(strings.TrimSuffix(s, ex.mustStr(args[1], "TrimSuffix"))), true
		}
	case "strings.HasSuffix":
		if s, ok := ex.concreteStr(args[0]); ok {
			return p.Bool(strings.HasSuffix(s, ex.mustStr(args[1], "HasSuffix"))), true
		}
	case "path.Base":
		if s, ok := ex.concreteStr(args[0]); ok {
			return ex.strVal(path.Base(s)), true
		}
	case "path.Ext":
		if s, ok := ex.concreteStr(args[0]); ok {
			return ex.strVal(path.Ext(s)), true
		}
	case "sort.Ints":
		ex.sortSlice(asSlice(args[0]), func(a, b Value) *Term { return p.Bin("bvslt", a.(*Term), b.(*Term)) })
		return nil, true
	case "sort.Strings":
		ex.sortSlice(asSlice(args[0]), func(a, b Value) *Term { return ex.termsLess(a.(*StringV).b, b.(*StringV).b, false) })
		return nil, true
	case "encoding/binary.Write":
		return ex.binaryWrite(args), true
	case "encoding/binary.Read":
		return ex.binaryRead(args), true
	case "regexp.Compile":
		pat := ex.mustStr(args[0], "regexp pattern")
		if _, err := regexp.Compile(pat); err != nil {
			return Tuple{(*Cell)(nil), ex.newErr("regexp: bad pattern")}, true
		}
		return Tuple{ex.newCell(ex.strVal(pat)), (*IfaceV)(nil)}, true
	case "(*regexp.Regexp).Match":
		re, _ := args[0].(*Cell)
		if re == nil {
			ex.rtPanic("invalid memory address or nil pointer dereference")
		}
		pat := ex.mustStr(re.v, "regexp")
		bs := ex.sliceTerms(asSlice(args[1]))
		conc := true
		raw := make([]byte, len(bs))
		for i, b := range bs {
			if !b.isConst {
				conc = false
				break
			}
			raw[i] = byte(b.c)
		}
		if conc {
			return p.Bool(regexp.MustCompile(pat).Match(raw)), true
		}
		// simple anchored patterns have an exact term semantics (so that replays agree with the real
		// regexp engine): "^[x-y]" and "^c"
		if len(pat) == 6 && pat[0] == '^' && pat[1] == '[' && pat[3] == '-' && pat[5] == ']' {
			if len(bs) == 0 {
				return p.Bool(false), true
			}
			return p.And(p.Bin("bvule", p.BV(8, uint64(pat[2])), bs[0]), p.Bin("bvule", bs[0], p.BV(8, uint64(pat[4])))), true
		}
		if len(pat) == 2 && pat[0] == '^' && (pat[1] >= 'a' && pat[1] <= 'z' || pat[1] >= '0' && pat[1] <= '9') {
			if len(bs) == 0 {
				return p.Bool(false), true
			}
			return p.Bin("=", bs[0], p.BV(8, uint64(pat[1]))), true
		}
		// otherwise: uninterpreted predicate of the bytes, one function per (pattern, length)
		id := ex.eng.patternID(pat)
		return ex.ufApply(fmt.Sprintf("rx_%d_%d", id, len(bs)), 0, bs), true
	case "(*sync.RWMutex).Lock", "(*sync.Mutex).Lock":
		ex.lockOp(args[0], "Lock")
		return nil, true
	case "(*sync.RWMutex).Unlock", "(*sync.Mutex).Unlock":
		ex.lockOp(args[0], "Unlock")
		return nil, true
	case "(*sync.RWMutex).RLock":
		ex.lockOp(args[0], "RLock")
		return nil, true
	case "(*sync.RWMutex).RUnlock":
		ex.lockOp(args[0], "RUnlock")
		return nil, true
	case "math.IsNaN":
		return p.FIsNaN(args[0].(*Term)), true
	case "math.IsInf":
		f := args[0].(*Term)
		sign := args[1].(*Term)
		pinf := p.FCmp("fp.eq", f, p.F64(math.Inf(1)))
		ninf := p.FCmp("fp.eq", f, p.F64(math.Inf(-1)))
		if sign.isConst {
			s := sext(sign.c, 64)
			switch {
			case s > 0:
				return pinf, true
			case s < 0:
				return ninf, true
			}
			return p.Or(pinf, ninf), true
		}
	case "math.Float64frombits":
		return p.FromBits(args[0].(*Term)), true
	}
	if fn.Pkg != nil && fn.Name() == "init" && fn.Signature.Recv() == nil && fn.Pkg.Func("init") == fn {
		if !ex.eng.shouldInit(fn.Pkg.Pkg.Path()) {
			return nil, true
		}
	}
	return nil, false
}

func asSlice(v Value) *SliceV {
	s, _ := v.(*SliceV)
	return s
}

func (ex *Exec) nativeErr(err error) Value {
	if err == nil {
		return (*IfaceV)(nil)
	}
	return ex.newErr(err.Error())
}

func (ex *Exec) callerSite() string {
	fr := ex.cur
	if fr != nil && fr.pos.IsValid() {
		p := ex.eng.prog.Fset.Position(fr.pos)
		return fmt.Sprintf("%s:%d", shortFile(p.Filename), p.Line)
	}
	return "?"
}

// symAtoi models strconv.Atoi on a short string with symbolic bytes (optional sign, decimal digits).
func (ex *Exec) symAtoi(s *StringV) Value {
	p := ex.pool
	n := len(s.b)
	if n == 0 || n > 6 {
		if n == 0 {
			return Tuple{p.BV(64, 0), ex.newErr("atoi: empty")}
		}
		panic(pathAbort{why: "strconv.Atoi on a long symbolic string", incomplete: true})
	}
	i := 0
	neg := false
	isMinus := p.Bin("=", s.b[0], p.BV(8, '-'))
	isPlus := p.Bin("=", s.b[0], p.BV(8, '+'))
	if ex.branch(isMinus) {
		neg = true
		i = 1
	} else if ex.branch(isPlus) {
		i = 1
	}
	if i == n {
		return Tuple{p.BV(64, 0), ex.newErr("atoi: syntax")}
	}
	acc := p.BV(64, 0)
	for ; i < n; i++ {
		b := s.b[i]
		isDigit := p.And(p.Bin("bvule", p.BV(8, '0'), b), p.Bin("bvule", b, p.BV(8, '9')))
		if !ex.branch(isDigit) {
			return Tuple{p.BV(64, 0), ex.newErr("atoi: syntax")}
		}
		d := p.ZExt(p.Bin("bvsub", b, p.BV(8, '0')), 64)
		acc = p.Bin("bvadd", p.Bin("bvmul", acc, p.BV(64, 10)), d)
	}
	if neg {
		acc = p.Neg(acc)
	}
	return Tuple{acc, (*IfaceV)(nil)}
}

// split is strings.SplitN (n < 0: all parts; n > 0: at most n parts, the last one unsplit).
func (ex *Exec) split(s *StringV, sep string, n int) Value {
	p := ex.pool
	if n == 0 {
		return (*SliceV)(nil)
	}
	if len(sep) != 1 {
		if str, ok := ex.concreteStr(s); ok {
			parts := strings.SplitN(str, sep, n)
			arr := &ArrayV{}
			for _, x := range parts {
				arr.e = append(arr.e, &Cell{v: ex.strVal(x)})
			}
			return &SliceV{arr: arr, ln: len(parts), cp: len(parts)}
		}
		panic(pathAbort{why: "strings.Split with multi-byte separator on symbolic string", incomplete: true})
	}
	var parts []*StringV
	start := 0
	for i, b := range s.b {
		if n > 0 && len(parts) == n-1 {
			break
		}
		if ex.branch(p.Bin("=", b, p.BV(8, uint64(sep[0])))) {
			parts = append(parts, &StringV{b: s.b[start:i]})
			start = i + 1
		}
	}
	parts = append(parts, &StringV{b: s.b[start:]})
	arr := &ArrayV{}
	for _, x := range parts {
		arr.e = append(arr.e, &Cell{v: x})
	}
	return &SliceV{arr: arr, ln: len(parts), cp: len(parts)}
}

func (ex *Exec) contains(s *StringV, sub string) Value {
	p := ex.pool
	if len(sub) == 0 {
		return p.Bool(true)
	}
	r := p.Bool(false)
	for i := 0; i+len(sub) <= len(s.b); i++ {
		m := p.Bool(true)
		for j := 0; j < len(sub); j++ {
			m = p.And(m, p.Bin("=", s.b[i+j], p.BV(8, uint64(sub[j]))))
		}
		r = p.Or(r, m)
	}
	return r
}

func (ex *Exec) sortSlice(s *SliceV, less func(a, b Value) *Term) {
	if s == nil {
		return
	}
	// insertion sort with symbolic comparisons decided by branching
	for i := 1; i < s.ln; i++ {
		for j := i; j > 0; j-- {
			a, b := ex.elem(s.arr, s.off+j-1), ex.elem(s.arr, s.off+j)
			if ex.branch(less(b.v, a.v)) {
				a.v, b.v = b.v, a.v
			} else {
				break
			}
		}
	}
}

// ---- CRC as a collision-free digest over the accumulated message ----

func (ex *Exec) crcMessageOf(s *SliceV) crcMessage {
	if s == nil {
		return crcMessage{}
	}
	if s.arr.lazy > 0 && s.off+s.ln > len(s.arr.e) {
		// materialised prefix + implicit zeros
		m := crcMessage{}
		for i := 0; i < s.ln && s.off+i < len(s.arr.e); i++ {
			m.msg = append(m.msg, s.arr.e[s.off+i].v.(*Term))
		}
		m.zeros = s.ln - len(m.msg)
		return m
	}
	return crcMessage{msg: ex.sliceTerms(s)}
}

// ufApply models an uninterpreted function by Ackermann's reduction: every application is a fresh
// variable (named after its argument terms), constrained against the earlier applications of the same
// function on this path: equal arguments give equal results. No UF reaches the solver, so the queries
// stay in QF_BV.
func (ex *Exec) ufApply(name string, resW int, args []*Term) *Term {
	p := ex.pool
	h := fnv.New64a()
	for _, t := range args {
		fmt.Fprintf(h, "%d,", t.id)
	}
	val := p.Var(fmt.Sprintf("%s_%x", name, h.Sum64()), resW)
	if ex.ackSeen[val] {
		return val
	}
	ex.ackSeen[val] = true
	for _, o := range ex.ackApps[name] {
		ax := p.Implies(ex.termsEq(o.args, args), p.Bin("=", o.val, val))
		if !ax.isConst {
			ex.emitAssert(ax)
			ex.modelValid = false
		}
	}
	ex.ackApps[name] = append(ex.ackApps[name], ackApp{args: args, val: val})
	ex.ackVars = append(ex.ackVars, val)
	return val
}

func (ex *Exec) crcOf(m crcMessage) *Term {
	p := ex.pool
	n := len(m.msg) + m.zeros
	if n == 0 {
		return p.BV(32, 0)
	}
	allc := m.zeros == 0
	raw := make([]byte, len(m.msg))
	for i, t := range m.msg {
		if !t.isConst {
			allc = false
			break
		}
		raw[i] = byte(t.c)
	}
	var val *Term
	if allc {
		val = p.BV(32, uint64(crc32.ChecksumIEEE(raw)))
	} else {
		// one digest variable per distinct (length, lazy zeros, materialised bytes)
		h := fnv.New64a()
		for _, t := range m.msg {
			fmt.Fprintf(h, "%d,", t.id)
		}
		val = p.Var(fmt.Sprintf("crc_%d_%d_%x", n, len(m.msg), h.Sum64()), 32)
	}
	if _, seen := ex.crcMsg[val]; !seen {
		ex.crcMsg[val] = m
		if !allc {
			ex.ackVars = append(ex.ackVars, val)
		}
		// instance axioms against every earlier digest on this path: the digests are equal exactly when
		// the messages have the same length and the same bytes (function + collision freedom)
		for _, o := range ex.crcApps {
			if o.t == val {
				continue
			}
			var ax *Term
			if o.n == n && o.m.zeros == m.zeros && len(o.m.msg) == len(m.msg) {
				ax = p.Bin("=", p.Bin("=", o.t, val), ex.termsEq(o.m.msg, m.msg))
			} else {
				ax = p.Not(p.Bin("=", o.t, val))
			}
			if ax.isConst {
				continue
			}
			ex.emitAssert(ax)
			ex.modelValid = false
		}
		ex.crcApps = append(ex.crcApps, crcApp{t: val, m: m, n: n})
	}
	return val
}

// ---- encoding/binary.Write / Read for fixed-size structs of integers ----

func (ex *Exec) encodeFixed(v Value, t types.Type, out *[]*Term) {
	switch u := t.Underlying().(type) {
	case *types.Basic:
		tm := v.(*Term)
		w := tm.w
		if w == 0 {
			*out = append(*out, ex.pool.Ite(tm, ex.pool.BV(8, 1), ex.pool.BV(8, 0)))
			return
		}
		for i := 0; i < w/8; i++ {
			*out = append(*out, ex.pool.Extract(tm, i*8+7, i*8))
		}
	case *types.Array:
		av := v.(*ArrayV)
		for i := range av.e {
			ex.encodeFixed(av.e[i].v, u.Elem(), out)
		}
	case *types.Struct:
		sv := v.(*StructV)
		for i := range sv.f {
			ex.encodeFixed(sv.f[i].v, u.Field(i).Type(), out)
		}
	default:
		panic(pathAbort{why: "binary.Write of " + t.String(), incomplete: true})
	}
}

func (ex *Exec) decodeFixed(c *Cell, t types.Type, in []*Term, pos *int) {
	switch u := t.Underlying().(type) {
	case *types.Basic:
		w := width(u)
		bs := make([]*Term, w/8)
		for i := 0; i < w/8; i++ {
			bs[w/8-1-i] = in[*pos+i]
		}
		*pos += w / 8
		c.v = ex.pool.Concat(bs)
	case *types.Array:
		av := c.v.(*ArrayV)
		for i := range av.e {
			ex.decodeFixed(av.e[i], u.Elem(), in, pos)
		}
	case *types.Struct:
		sv := c.v.(*StructV)
		for i := range sv.f {
			ex.decodeFixed(sv.f[i], u.Field(i).Type(), in, pos)
		}
	default:
		panic(pathAbort{why: "binary.Read of " + t.String(), incomplete: true})
	}
}

// binarySize is encoding/binary.Size for fixed-size types: fields are packed, there is no padding.
func binarySize(t types.Type) int {
	switch u := t.Underlying().(type) {
	case *types.Basic:
		if u.Info()&(types.IsInteger|types.IsFloat) == 0 || u.Kind() == types.Int || u.Kind() == types.Uint || u.Kind() == types.Uintptr {
			return -1
		}
		return width(u) / 8
	case *types.Array:
		e := binarySize(u.Elem())
		if e < 0 {
			return -1
		}
		return e * int(u.Len())
	case *types.Struct:
		n := 0
		for i := 0; i < u.NumFields(); i++ {
			e := binarySize(u.Field(i).Type())
			if e < 0 {
				return -1
			}
			n += e
		}
		return n
	}
	return -1
}

func (ex *Exec) ifaceMethod(iv *IfaceV, name string) *ssa.Function {
	ms := ex.eng.prog.MethodSets.MethodSet(iv.t)
	for i := 0; i < ms.Len(); i++ {
		if ms.At(i).Obj().Name() == name {
			return ex.eng.prog.MethodValue(ms.At(i))
		}
	}
	return nil
}

func (ex *Exec) binaryWrite(args []Value) Value {
	w, _ := args[0].(*IfaceV)
	data, _ := args[2].(*IfaceV)
	if w == nil || data == nil {
		panic(pathAbort{why: "binary.Write nil", incomplete: true})
	}
	var bs []*Term
	t := data.t
	v := data.v
	if pt, ok := t.Underlying().(*types.Pointer); ok {
		t = pt.Elem()
		v = v.(*Cell).v
	}
	ex.encodeFixed(v, t, &bs)
	fn := ex.ifaceMethod(w, "Write")
	if fn == nil {
		panic(pathAbort{why: "binary.Write: writer has no Write", incomplete: true})
	}
	r := ex.call(fn, []Value{w.v, ex.bytesToSlice(bs)}).(Tuple)
	return r[1]
}

func (ex *Exec) binaryRead(args []Value) Value {
	r, _ := args[0].(*IfaceV)
	data, _ := args[2].(*IfaceV)
	if r == nil || data == nil {
		panic(pathAbort{why: "binary.Read nil", incomplete: true})
	}
	pt, ok := data.t.Underlying().(*types.Pointer)
	if !ok {
		panic(pathAbort{why: "binary.Read into non-pointer", incomplete: true})
	}
	size := binarySize(pt.Elem()) // encoding/binary's packed size (no alignment padding), as binary.Size
	if size < 0 {
		panic(pathAbort{why: "binary.Read of " + pt.Elem().String(), incomplete: true})
	}
	buf := ex.newSlice(types.Typ[types.Uint8], size, size)
	fn := ex.ifaceMethod(r, "Read")
	if fn == nil {
		panic(pathAbort{why: "binary.Read: reader has no Read", incomplete: true})
	}
	// io.ReadFull semantics
	got := 0
	for got < size {
		res := ex.call(fn, []Value{r.v, &SliceV{arr: buf.arr, off: got, ln: size - got, cp: size - got}}).(Tuple)
		n := ex.concreteInt(res[0], "Read n")
		got += n
		if errv, _ := res[1].(*IfaceV); errv != nil {
			if got >= size {
				break
			}
			if got == 0 {
				return errv
			}
			return ex.global(ex.eng.ioErrUnexpectedEOF).v
		}
		if n == 0 {
			panic(pathAbort{why: "binary.Read: reader made no progress", incomplete: true})
		}
	}
	pos := 0
	ex.decodeFixed(data.v.(*Cell), pt.Elem(), ex.sliceTerms(buf), &pos)
	return (*IfaceV)(nil)
}

// ---- locks ----

func (ex *Exec) lockOp(mu Value, op string) {
	c, _ := mu.(*Cell)
	if c == nil {
		ex.rtPanic("invalid memory address or nil pointer dereference")
	}
	st := ex.locks[c]
	if st == nil {
		st = &lockState{}
		ex.locks[c] = st
	}
	switch op {
	case "Lock":
		if st.writer || st.readers > 0 {
			ex.lockViolation("self-deadlock: Lock while the same goroutine already holds the lock")
		}
		st.writer = true
	case "RLock":
		if st.writer {
			ex.lockViolation("self-deadlock: RLock while the same goroutine holds the write lock")
		}
		st.readers++
	case "Unlock":
		if !st.writer {
			ex.lockViolation("Unlock of unlocked mutex")
		}
		st.writer = false
	case "RUnlock":
		if st.readers == 0 {
			ex.lockViolation("RUnlock of unlocked RWMutex")
		}
		st.readers--
	}
	if ex.tracing {
		ex.trace = append(ex.trace, Access{Kind: "lock:" + op, Loc: fmt.Sprintf("mu%d", c.id), Where: ex.where()})
	}
}

func (ex *Exec) lockViolation(msg string) {
	// sync's fatal errors / deadlocks: modelled as an unrecoverable panic
	panic(&goPanic{val: &IfaceV{t: types.Typ[types.String], v: ex.strVal(msg)}, msg: "fatal: " + msg, where: ex.where()})
}
