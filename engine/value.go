package main

import (
	"fmt"
	"go/types"

	"golang.org/x/tools/go/ssa"
)

// Value is a runtime value of the symbolic interpreter:
//   *Term                       bool, integers, float64
//   *Cell                       pointer (nil pointer = (*Cell)(nil))
//   *SliceV / *StringV / *MapV  slices, strings, maps
//   *FuncV                      function values / closures
//   *IfaceV                     interface values (nil interface = (*IfaceV)(nil))
//   *StructV / *ArrayV          aggregate values
//   Tuple                       multiple results
type Value interface{}

type Cell struct {
	v      Value
	id     int    // allocation number on this path (deterministic)
	tag    string // description for traces
	shared bool   // reachable from the shared state when tracing started (lock-discipline checks)
	global bool   // a package-level variable of the code under test
}
type StructV struct{ f []*Cell }
type ArrayV struct {
	e    []*Cell
	lazy int // >0: huge untouched allocation of this many elements (never materialised)
}
type SliceV struct {
	arr         *ArrayV
	off, ln, cp int
}
type StringV struct{ b []*Term }
type MapV struct {
	keys   []Value
	vals   []*Cell
	id     int
	shared bool
}
type IfaceV struct {
	t types.Type
	v Value
}
type FuncV struct {
	fn   *ssa.Function
	free []Value
	bi   *ssa.Builtin
}
type Tuple []Value

type RangeIter struct {
	m    *MapV
	keys []Value
	vals []Value
	s    *StringV
	pos  int
}

// goPanic is a Go-level panic travelling through interpreted frames.
type goPanic struct {
	val   Value  // the panic value (interface)
	msg   string // rendered message for runtime panics
	where string
	rt    bool // runtime error (index out of range, nil deref, ...)
}

// pathAbort ends the current path without a verdict.
type pathAbort struct {
	why        string
	incomplete bool // true: the path could not be explored (counts as INCOMPLETE)
}

func isNilVal(v Value) bool {
	switch x := v.(type) {
	case nil:
		return true
	case *Cell:
		return x == nil
	case *SliceV:
		return x == nil
	case *MapV:
		return x == nil
	case *FuncV:
		return x == nil
	case *IfaceV:
		return x == nil
	}
	return false
}

func copyVal(v Value) Value {
	switch x := v.(type) {
	case *StructV:
		n := &StructV{f: make([]*Cell, len(x.f))}
		for i, c := range x.f {
			n.f[i] = &Cell{v: copyVal(c.v)}
		}
		return n
	case *ArrayV:
		n := &ArrayV{e: make([]*Cell, len(x.e)), lazy: x.lazy}
		for i, c := range x.e {
			n.e[i] = &Cell{v: copyVal(c.v)}
		}
		return n
	}
	return v
}

// assign stores v into dst, keeping the identity of aggregate sub-cells (so that
// previously taken field/element addresses stay valid, as in Go).
func assign(dst *Cell, v Value) {
	switch x := v.(type) {
	case *StructV:
		if d, ok := dst.v.(*StructV); ok && len(d.f) == len(x.f) {
			for i := range x.f {
				assign(d.f[i], x.f[i].v)
			}
			return
		}
		dst.v = copyVal(v)
	case *ArrayV:
		if d, ok := dst.v.(*ArrayV); ok && len(d.e) == len(x.e) {
			for i := range x.e {
				assign(d.e[i], x.e[i].v)
			}
			return
		}
		dst.v = copyVal(v)
	default:
		dst.v = v
	}
}

func width(b *types.Basic) int {
	switch b.Kind() {
	case types.Int8, types.Uint8:
		return 8
	case types.Int16, types.Uint16:
		return 16
	case types.Int32, types.Uint32:
		return 32
	default:
		return 64
	}
}

func isSigned(t types.Type) bool {
	b, ok := t.Underlying().(*types.Basic)
	return ok && b.Info()&types.IsUnsigned == 0
}

func (ex *Exec) zero(t types.Type) Value {
	switch u := t.Underlying().(type) {
	case *types.Basic:
		switch {
		case u.Info()&types.IsBoolean != 0:
			return ex.pool.Bool(false)
		case u.Info()&types.IsInteger != 0:
			return ex.pool.BV(width(u), 0)
		case u.Info()&types.IsFloat != 0:
			return ex.pool.F64(0)
		case u.Info()&types.IsString != 0:
			return &StringV{}
		case u.Kind() == types.UnsafePointer:
			return (*Cell)(nil)
		case u.Kind() == types.UntypedNil:
			return nil
		}
	case *types.Pointer:
		return (*Cell)(nil)
	case *types.Slice:
		return (*SliceV)(nil)
	case *types.Map:
		return (*MapV)(nil)
	case *types.Interface:
		return (*IfaceV)(nil)
	case *types.Signature:
		return (*FuncV)(nil)
	case *types.Chan:
		return (*Cell)(nil)
	case *types.Struct:
		s := &StructV{f: make([]*Cell, u.NumFields())}
		for i := 0; i < u.NumFields(); i++ {
			s.f[i] = &Cell{v: ex.zero(u.Field(i).Type())}
		}
		return s
	case *types.Array:
		n := int(u.Len())
		if n > 1<<16 {
			panic(pathAbort{why: "huge array type", incomplete: true})
		}
		a := &ArrayV{e: make([]*Cell, n)}
		for i := 0; i < n; i++ {
			a.e[i] = &Cell{v: ex.zero(u.Elem())}
		}
		return a
	case *types.Tuple:
		var tp Tuple
		for i := 0; i < u.Len(); i++ {
			tp = append(tp, ex.zero(u.At(i).Type()))
		}
		return tp
	}
	panic(pathAbort{why: "zero: unsupported type " + t.String(), incomplete: true})
}

func describe(v Value) string {
	switch x := v.(type) {
	case nil:
		return "nil"
	case *Term:
		return x.String()
	case *Cell:
		if x == nil {
			return "nilptr"
		}
		return fmt.Sprintf("&cell%d", x.id)
	case *StringV:
		return fmt.Sprintf("string[%d]", len(x.b))
	case *SliceV:
		if x == nil {
			return "nilslice"
		}
		return fmt.Sprintf("slice[%d:%d]", x.ln, x.cp)
	case *IfaceV:
		if x == nil {
			return "niliface"
		}
		return "iface(" + x.t.String() + ")"
	}
	return fmt.Sprintf("%T", v)
}
