package main

import (
	"bytes"
	"context"
	"encoding/json"
	"fmt"
	"os"
	"os/exec"
	"path/filepath"
	"regexp"
	"sort"
	"strings"
	"time"
)

type ReplayInput struct {
	Kind string `json:"kind"`
	Val  uint64 `json:"val"`
}

type ReplayFile struct {
	Property string        `json:"property"`
	Harness  string        `json:"harness"`
	Pkg      string        `json:"pkg"`
	Params   map[string]int `json:"params,omitempty"`
	Inputs   []ReplayInput `json:"inputs"`
	Expect   string        `json:"expect"` // assert id, "panic", or "witness"
	Msg      string        `json:"msg,omitempty"`
	Obs      []ObsVal      `json:"obs,omitempty"`
	Known    []string      `json:"known,omitempty"`
	Tries    int           `json:"tries,omitempty"`
	Path     []Decision    `json:"path,omitempty"`
}

type NativeResult struct {
	File    string   `json:"file"`
	Harness string   `json:"harness"`
	Fails   []string `json:"fails"`
	Panic   string   `json:"panic"`
	Skipped bool     `json:"skipped"`
	Obs     []ObsVal `json:"obs"`
	Tries   int      `json:"tries"`
	Used    int      `json:"used"`
}

type replayer struct {
	eng     *Engine
	work    string
	built   bool
	overlay string
	n       int
}

func newReplayer(e *Engine) *replayer {
	w := filepath.Join(verifRoot, ".work", fmt.Sprintf("%d", os.Getpid()))
	return &replayer{eng: e, work: w}
}

func (r *replayer) cleanup() {
	os.RemoveAll(r.work)
}

var harnessFuncRe = regexp.MustCompile(`(?m)^func (H_\w+)\(\)`)

// prepare writes the native overlay: harness sources (non-gosmt files are selected by the go tool via
// build constraints), the native intrinsics and a generated test driver per package.
func (r *replayer) prepare() error {
	if r.built {
		return nil
	}
	if err := os.MkdirAll(r.work, 0755); err != nil {
		return err
	}
	ov, err := buildOverlay(r.eng.hdir)
	if err != nil {
		return err
	}
	repl := map[string]string{}
	names := map[string][]string{}
	i := 0
	for virt, content := range ov {
		i++
		real := filepath.Join(r.work, fmt.Sprintf("f%03d_%s", i, filepath.Base(virt)))
		if err := os.WriteFile(real, content, 0644); err != nil {
			return err
		}
		repl[virt] = real
		if bytes.Contains(content, []byte("//go:build gosmt")) {
			continue
		}
		dir := filepath.Dir(virt)
		for _, m := range harnessFuncRe.FindAllSubmatch(content, -1) {
			names[dir] = append(names[dir], string(m[1]))
		}
	}
	for _, d := range pkgDirs {
		dir := filepath.Join(repoRoot, d)
		var sb strings.Builder
		fmt.Fprintf(&sb, "package %s\n\nimport \"testing\"\n\nfunc TestVReplay(t *testing.T) { vReplayMain(t, map[string]func(){\n", pkgNameOf(d))
		sort.Strings(names[dir])
		for _, n := range names[dir] {
			fmt.Fprintf(&sb, "\t%q: %s,\n", n, n)
		}
		sb.WriteString("}) }\n")
		real := filepath.Join(r.work, "driver_"+pkgNameOf(d)+"_test.go")
		if err := os.WriteFile(real, []byte(sb.String()), 0644); err != nil {
			return err
		}
		repl[filepath.Join(dir, "zz_verif_replay_test.go")] = real
	}
	b, _ := json.Marshal(map[string]interface{}{"Replace": repl})
	r.overlay = filepath.Join(r.work, "overlay.json")
	if err := os.WriteFile(r.overlay, b, 0644); err != nil {
		return err
	}
	r.built = true
	return nil
}

func (r *replayer) runNative(pkgDir string, files []string) (string, error) {
	if err := r.prepare(); err != nil {
		return "", err
	}
	ctx, cancel := context.WithTimeout(context.Background(), 300*time.Second)
	defer cancel()
	target := "./" + pkgDir
	if pkgDir == "." {
		target = "."
	}
	cmd := exec.CommandContext(ctx, "go", "test", "-vet=off", "-count=1", "-overlay", r.overlay, "-run", "^TestVReplay$", "-v", target)
	cmd.Dir = repoRoot
	cmd.Env = append(os.Environ(), "GOFLAGS=-mod=mod", "GOPROXY=off", "GOSUMDB=off", "GOTOOLCHAIN=local",
		"GOSMT_REPLAY="+strings.Join(files, ","))
	out, err := cmd.CombinedOutput()
	return string(out), err
}

func parseNative(out string) map[string]*NativeResult {
	res := map[string]*NativeResult{}
	for _, l := range strings.Split(out, "\n") {
		l = strings.TrimSpace(l)
		i := strings.Index(l, "VREPLAY ")
		if i < 0 {
			continue
		}
		var nr NativeResult
		if err := json.Unmarshal([]byte(l[i+8:]), &nr); err == nil {
			res[nr.File] = &nr
		}
	}
	return res
}

func (r *replayer) writeFile(rf *ReplayFile, dir string) (string, error) {
	if err := os.MkdirAll(dir, 0755); err != nil {
		return "", err
	}
	r.n++
	safe := strings.Map(func(r rune) rune {
		if r >= 'a' && r <= 'z' || r >= 'A' && r <= 'Z' || r >= '0' && r <= '9' || r == '.' || r == '-' {
			return r
		}
		return '_'
	}, rf.Expect)
	name := fmt.Sprintf("%s-%s-%d.json", rf.Harness, safe, r.n)
	path := filepath.Join(dir, name)
	b, _ := json.MarshalIndent(rf, "", " ")
	return path, os.WriteFile(path, b, 0644)
}

func (r *replayer) mkReplay(h *HarnessSpec, v Violation, inputs []Input) *ReplayFile {
	rf := &ReplayFile{Property: h.Prop, Harness: h.Name, Pkg: h.Pkg, Params: h.Params, Expect: v.ID, Msg: v.Msg, Obs: v.Obs, Known: v.Known, Path: v.Path}
	for i, val := range v.Inputs {
		k := "?"
		if i < len(v.Kinds) {
			k = v.Kinds[i]
		}
		rf.Inputs = append(rf.Inputs, ReplayInput{Kind: k, Val: val})
	}
	if h.MapRot {
		rf.Tries = 40
	}
	return rf
}

// reproduced decides whether the native run shows the predicted failure.
func reproduced(rf *ReplayFile, nr *NativeResult) bool {
	if nr == nil {
		return false
	}
	if strings.HasPrefix(rf.Expect, "panic") {
		return nr.Panic != ""
	}
	switch rf.Expect {
	case "witness":
		if nr.Panic != "" || len(nr.Fails) > 0 || nr.Skipped {
			return false
		}
		return obsEqual(rf.Obs, nr.Obs)
	}
	for _, f := range nr.Fails {
		if f == rf.Expect {
			return true
		}
	}
	return false
}

func obsEqual(a, b []ObsVal) bool {
	if len(a) != len(b) {
		return false
	}
	for i := range a {
		if a[i].Tag != b[i].Tag {
			return false
		}
		if strings.Contains(a[i].Val, "?") {
			continue
		}
		if a[i].Val != b[i].Val {
			return false
		}
	}
	return true
}

func (r *replayer) replayViolation(h *HarnessSpec, v Violation) (bool, string) {
	rf := r.mkReplay(h, v, nil)
	path, err := r.writeFile(rf, filepath.Join(verifRoot, "replays", h.Prop))
	if err != nil {
		return false, err.Error()
	}
	out, _ := r.runNative(h.Pkg, []string{path})
	nr := parseNative(out)[path]
	if nr == nil {
		// process died (fatal error, deadlock, timeout) — for a predicted panic/fatal this is a reproduction
		if strings.HasPrefix(rf.Expect, "panic") && (strings.Contains(out, "fatal error") || strings.Contains(out, "panic:")) {
			return true, path
		}
		return false, path + " (no native result) " + tail(out, 400)
	}
	return reproduced(rf, nr), path
}

func tail(s string, n int) string {
	if len(s) > n {
		return s[len(s)-n:]
	}
	return s
}
