package main

import (
	"fmt"
	"math"
	"math/bits"
	"strings"
)

// Term is a hash-consed SMT term.
// w == 0: Bool; w > 0: (_ BitVec w); w == -1: Float64.
type Term struct {
	id      int
	op      string
	args    []*Term
	w       int
	c       uint64 // constant value (bits) when isConst
	isConst bool
	name    string // var / uf name
	p1, p2  int    // op parameters (extract hi/lo, extend amount)
	emitted bool
}

const FW = -1 // width tag for float64

type TermPool struct {
	tab   map[string]*Term
	all   []*Term
	ufs   map[string]bool // declared uninterpreted functions
	ufApp []*Term         // crc applications created (for injectivity axioms)
}

func NewPool() *TermPool { return &TermPool{tab: map[string]*Term{}, ufs: map[string]bool{}} }

func mask(w int) uint64 {
	if w >= 64 {
		return ^uint64(0)
	}
	return (uint64(1) << uint(w)) - 1
}

func (p *TermPool) mk(op string, w int, c uint64, isConst bool, name string, p1, p2 int, args ...*Term) *Term {
	var sb strings.Builder
	sb.WriteString(op)
	sb.WriteByte('/')
	sb.WriteString(itoa(w))
	sb.WriteByte('/')
	if isConst {
		sb.WriteString(u64toa(c))
		sb.WriteByte('c')
	}
	sb.WriteString(name)
	if p1 != 0 || p2 != 0 {
		sb.WriteByte('/')
		sb.WriteString(itoa(p1))
		sb.WriteByte('/')
		sb.WriteString(itoa(p2))
	}
	for _, a := range args {
		sb.WriteByte(',')
		sb.WriteString(itoa(a.id))
	}
	k := sb.String()
	if t, ok := p.tab[k]; ok {
		return t
	}
	t := &Term{id: len(p.all), op: op, args: args, w: w, c: c, isConst: isConst, name: name, p1: p1, p2: p2}
	p.tab[k] = t
	p.all = append(p.all, t)
	return t
}

func itoa(i int) string      { return fmt.Sprint(i) }
func u64toa(u uint64) string { return fmt.Sprint(u) }

func (p *TermPool) BV(w int, v uint64) *Term { return p.mk("const", w, v&mask(w), true, "", 0, 0) }
func (p *TermPool) F64(f float64) *Term    { return p.mk("const", FW, math.Float64bits(f), true, "", 0, 0) }
func (p *TermPool) Bool(b bool) *Term {
	if b {
		return p.mk("const", 0, 1, true, "", 0, 0)
	}
	return p.mk("const", 0, 0, true, "", 0, 0)
}
func (p *TermPool) Var(name string, w int) *Term { return p.mk("var", w, 0, false, name, 0, 0) }

// FromBits reinterprets a 64-bit vector as a float64.
func (p *TermPool) FromBits(a *Term) *Term {
	if a.isConst {
		return p.mk("const", FW, a.c, true, "", 0, 0)
	}
	if a.op == "tobits" {
		return a.args[0]
	}
	return p.mk("frombits", FW, 0, false, "", 0, 0, a)
}

func sext(v uint64, w int) int64 {
	if w >= 64 {
		return int64(v)
	}
	if v&(1<<uint(w-1)) != 0 {
		return int64(v | ^mask(w))
	}
	return int64(v)
}

func isCmp(op string) bool {
	switch op {
	case "bvult", "bvule", "bvslt", "bvsle", "=":
		return true
	}
	return false
}

func foldBin(op string, w int, x, y uint64) (uint64, bool) {
	switch op {
	case "bvadd":
		return x + y, true
	case "bvsub":
		return x - y, true
	case "bvmul":
		return x * y, true
	case "bvand":
		return x & y, true
	case "bvor":
		return x | y, true
	case "bvxor":
		return x ^ y, true
	case "bvshl":
		if y >= uint64(w) {
			return 0, true
		}
		return x << y, true
	case "bvlshr":
		if y >= uint64(w) {
			return 0, true
		}
		return x >> y, true
	case "bvashr":
		sx := sext(x, w)
		if y >= uint64(w) {
			if sx < 0 {
				return ^uint64(0), true
			}
			return 0, true
		}
		return uint64(sx >> y), true
	case "bvudiv":
		if y != 0 {
			return x / y, true
		}
		return mask(w), true
	case "bvurem":
		if y != 0 {
			return x % y, true
		}
		return x, true
	case "bvsdiv":
		if y != 0 {
			sx, sy := sext(x, w), sext(y, w)
			if sy == -1 {
				return uint64(-sx), true
			}
			return uint64(sx / sy), true
		}
	case "bvsrem":
		if y != 0 {
			sx, sy := sext(x, w), sext(y, w)
			if sy == -1 {
				return 0, true
			}
			return uint64(sx % sy), true
		}
	case "bvult":
		return b2u(x < y), true
	case "bvule":
		return b2u(x <= y), true
	case "bvslt":
		return b2u(sext(x, w) < sext(y, w)), true
	case "bvsle":
		return b2u(sext(x, w) <= sext(y, w)), true
	case "=":
		return b2u(x == y), true
	}
	return 0, false
}

func b2u(b bool) uint64 {
	if b {
		return 1
	}
	return 0
}

// Bin builds a binary bit-vector / equality op with constant folding.
func (p *TermPool) Bin(op string, a, b *Term) *Term {
	w := a.w
	if a.w != b.w {
		panic(fmt.Sprintf("Bin %s: width mismatch %d vs %d", op, a.w, b.w))
	}
	if w == FW {
		panic("Bin on float")
	}
	if w == 0 {
		// boolean equality
		if op != "=" {
			panic("Bin on bool: " + op)
		}
		if a.isConst {
			if a.c != 0 {
				return b
			}
			return p.Not(b)
		}
		if b.isConst {
			if b.c != 0 {
				return a
			}
			return p.Not(a)
		}
		if a == b {
			return p.Bool(true)
		}
		return p.mk("=", 0, 0, false, "", 0, 0, a, b)
	}
	if a.isConst && b.isConst {
		if v, ok := foldBin(op, w, a.c, b.c); ok {
			if isCmp(op) {
				return p.Bool(v != 0)
			}
			return p.BV(w, v)
		}
	}
	// identities
	switch op {
	case "bvadd", "bvor", "bvxor":
		if a.isConst && a.c == 0 {
			return b
		}
		if b.isConst && b.c == 0 {
			return a
		}
	case "bvsub", "bvshl", "bvlshr", "bvashr":
		if b.isConst && b.c == 0 {
			return a
		}
	case "bvmul":
		if a.isConst && a.c == 1 {
			return b
		}
		if b.isConst && b.c == 1 {
			return a
		}
		if (a.isConst && a.c == 0) || (b.isConst && b.c == 0) {
			return p.BV(w, 0)
		}
	case "bvand":
		if (a.isConst && a.c == 0) || (b.isConst && b.c == 0) {
			return p.BV(w, 0)
		}
		if a.isConst && a.c == mask(w) {
			return b
		}
		if b.isConst && b.c == mask(w) {
			return a
		}
	case "bvudiv", "bvsdiv":
		if b.isConst && b.c == 1 {
			return a
		}
	}
	// (x*c)/c == x when x is a zero-extension leaving enough headroom (signed or unsigned)
	if (op == "bvsdiv" || op == "bvudiv") && b.isConst && b.c != 0 && a.op == "bvmul" {
		var x *Term
		if a.args[1].isConst && a.args[1].c == b.c {
			x = a.args[0]
		} else if a.args[0].isConst && a.args[0].c == b.c {
			x = a.args[1]
		}
		if x != nil && x.op == "zext" {
			inner := x.args[0].w
			need := inner + bits.Len64(b.c) + 1
			if need <= w && sext(b.c, w) > 0 {
				return x
			}
		}
	}
	if op == "bvor" || op == "bvadd" || op == "bvxor" {
		// byte assembly: zext(b0) | zext(b1)<<8 | ...  ==> concat(..., b1, b0); together with the
		// extract/concat rules this turns a little-endian decode of an encode back into the original term
		if r := p.assemble(a, b); r != nil {
			return r
		}
	}
	if isCmp(op) {
		if a == b {
			switch op {
			case "=", "bvule", "bvsle":
				return p.Bool(true)
			default:
				return p.Bool(false)
			}
		}
		// compare (ite c x y) against a constant -> boolean structure
		if a.op == "ite" && b.isConst && (a.args[1].isConst || a.args[2].isConst) {
			return p.IteB(a.args[0], p.Bin(op, a.args[1], b), p.Bin(op, a.args[2], b))
		}
		if b.op == "ite" && a.isConst && (b.args[1].isConst || b.args[2].isConst) {
			return p.IteB(b.args[0], p.Bin(op, a, b.args[1]), p.Bin(op, a, b.args[2]))
		}
		if op == "=" {
			// zext(x) == const
			if a.op == "zext" && b.isConst {
				in := a.args[0]
				if b.c&^mask(in.w) != 0 {
					return p.Bool(false)
				}
				return p.Bin("=", in, p.BV(in.w, b.c))
			}
			if b.op == "zext" && a.isConst {
				return p.Bin("=", b, a)
			}
			// canonical order for commutative equality
			if a.id > b.id {
				a, b = b, a
			}
		}
		return p.mk(op, 0, 0, false, "", 0, 0, a, b)
	}
	return p.mk(op, w, 0, false, "", 0, 0, a, b)
}

// byteParts decomposes t (width w, multiple of 8) into byte terms by position (0 = least significant)
// when t is built only from zero-extended bytes shifted by multiples of 8 and or-ed together.
// Missing positions are known zero bytes.
func (p *TermPool) byteParts(t *Term, depth int) (map[int]*Term, bool) {
	if depth > 12 || t.w%8 != 0 || t.w == 0 || t.w == FW {
		return nil, false
	}
	switch {
	case t.isConst:
		m := map[int]*Term{}
		for i := 0; i < t.w/8; i++ {
			if b := (t.c >> uint(8*i)) & 0xff; b != 0 {
				m[i] = p.BV(8, b)
			}
		}
		return m, true
	case t.op == "zext":
		in := t.args[0]
		if in.w == 8 {
			return map[int]*Term{0: in}, true
		}
		return p.byteParts(in, depth+1)
	case t.op == "asm":
		m := map[int]*Term{}
		n := t.w / 8
		for i, a := range t.args { // args are most significant first
			if !(a.isConst && a.c == 0) {
				m[n-1-i] = a
			}
		}
		return m, true
	case t.op == "bvshl" && t.args[1].isConst && t.args[1].c%8 == 0:
		in, ok := p.byteParts(t.args[0], depth+1)
		if !ok {
			return nil, false
		}
		sh := int(t.args[1].c / 8)
		m := map[int]*Term{}
		for k, v := range in {
			if k+sh < t.w/8 {
				m[k+sh] = v
			}
		}
		return m, true
	case t.op == "extract" && t.p2%8 == 0 && t.w == 8:
		return map[int]*Term{0: t}, true
	}
	return nil, false
}

func (p *TermPool) assemble(a, b *Term) *Term {
	if a.w%8 != 0 || a.w < 16 {
		return nil
	}
	ma, ok := p.byteParts(a, 0)
	if !ok {
		return nil
	}
	mb, ok := p.byteParts(b, 0)
	if !ok {
		return nil
	}
	for k := range mb {
		if _, dup := ma[k]; dup {
			return nil
		}
	}
	n := a.w / 8
	parts := make([]*Term, n)
	for i := 0; i < n; i++ {
		var t *Term
		if x, ok := ma[i]; ok {
			t = x
		} else if x, ok := mb[i]; ok {
			t = x
		} else {
			t = p.BV(8, 0)
		}
		parts[n-1-i] = t
	}
	r := p.Concat(parts)
	if r.op == "concat" {
		// keep a distinguishable node so that later or-steps keep assembling cheaply
		return p.mk("asm", a.w, 0, false, "", 0, 0, parts...)
	}
	return r
}

func (p *TermPool) BvNot(a *Term) *Term {
	if a.isConst {
		return p.BV(a.w, ^a.c)
	}
	return p.mk("bvnot", a.w, 0, false, "", 0, 0, a)
}

func (p *TermPool) Neg(a *Term) *Term { return p.Bin("bvsub", p.BV(a.w, 0), a) }

func (p *TermPool) Not(a *Term) *Term {
	if a.w != 0 {
		panic("Not on non-bool")
	}
	if a.isConst {
		return p.Bool(a.c == 0)
	}
	if a.op == "not" {
		return a.args[0]
	}
	return p.mk("not", 0, 0, false, "", 0, 0, a)
}

func (p *TermPool) And(a, b *Term) *Term {
	if a.w != 0 || b.w != 0 {
		panic("And on non-bool")
	}
	if a.isConst {
		if a.c == 0 {
			return a
		}
		return b
	}
	if b.isConst {
		if b.c == 0 {
			return b
		}
		return a
	}
	if a == b {
		return a
	}
	return p.mk("and", 0, 0, false, "", 0, 0, a, b)
}

func (p *TermPool) Or(a, b *Term) *Term {
	if a.isConst {
		if a.c != 0 {
			return a
		}
		return b
	}
	if b.isConst {
		if b.c != 0 {
			return b
		}
		return a
	}
	if a == b {
		return a
	}
	return p.mk("or", 0, 0, false, "", 0, 0, a, b)
}

func (p *TermPool) Implies(a, b *Term) *Term { return p.Or(p.Not(a), b) }

func (p *TermPool) Ite(c, a, b *Term) *Term {
	if a.w == 0 {
		return p.IteB(c, a, b)
	}
	if c.isConst {
		if c.c != 0 {
			return a
		}
		return b
	}
	if a == b {
		return a
	}
	return p.mk("ite", a.w, 0, false, "", 0, 0, c, a, b)
}

func (p *TermPool) IteB(c, a, b *Term) *Term {
	if c.isConst {
		if c.c != 0 {
			return a
		}
		return b
	}
	if a == b {
		return a
	}
	if a.isConst && b.isConst {
		if a.c != 0 {
			return c
		}
		return p.Not(c)
	}
	if a.isConst {
		if a.c != 0 {
			return p.Or(c, b)
		}
		return p.And(p.Not(c), b)
	}
	if b.isConst {
		if b.c != 0 {
			return p.Or(p.Not(c), a)
		}
		return p.And(c, a)
	}
	return p.mk("ite", 0, 0, false, "", 0, 0, c, a, b)
}

// Concat concatenates terms, most significant first.
func (p *TermPool) Concat(bs []*Term) *Term {
	if len(bs) == 1 {
		return bs[0]
	}
	w := 0
	allc := true
	for _, b := range bs {
		if !b.isConst {
			allc = false
		}
		w += b.w
	}
	if allc && w <= 64 {
		var v uint64
		for _, b := range bs {
			v = v<<uint(b.w) | b.c
		}
		return p.BV(w, v)
	}
	// contiguous extracts of the same term collapse
	if bs[0].op == "extract" {
		src := bs[0].args[0]
		hi := bs[0].p1
		lo := bs[0].p2
		ok := true
		for _, b := range bs[1:] {
			if b.op != "extract" || b.args[0] != src || b.p1 != lo-1 {
				ok = false
				break
			}
			lo = b.p2
		}
		if ok {
			return p.Extract(src, hi, lo)
		}
	}
	return p.mk("concat", w, 0, false, "", 0, 0, bs...)
}

func (p *TermPool) Extract(a *Term, hi, lo int) *Term {
	if lo == 0 && hi == a.w-1 {
		return a
	}
	w := hi - lo + 1
	if a.isConst {
		return p.BV(w, a.c>>uint(lo))
	}
	switch a.op {
	case "extract":
		return p.Extract(a.args[0], a.p2+hi, a.p2+lo)
	case "zext":
		in := a.args[0]
		if hi < in.w {
			return p.Extract(in, hi, lo)
		}
		if lo >= in.w {
			return p.BV(w, 0)
		}
	case "sext":
		in := a.args[0]
		if hi < in.w {
			return p.Extract(in, hi, lo)
		}
	case "concat", "asm":
		// find the pieces covered
		pos := a.w
		for _, part := range a.args {
			phi := pos - 1
			plo := pos - part.w
			if hi <= phi && lo >= plo {
				return p.Extract(part, hi-plo, lo-plo)
			}
			pos = plo
		}
	case "bvlshr":
		if a.args[1].isConst {
			sh := int(a.args[1].c)
			if hi+sh < a.w {
				return p.Extract(a.args[0], hi+sh, lo+sh)
			}
		}
	case "bvand", "bvor", "bvxor":
		return p.Bin(a.op, p.Extract(a.args[0], hi, lo), p.Extract(a.args[1], hi, lo))
	case "bvshl":
		if a.args[1].isConst {
			sh := int(a.args[1].c)
			if lo >= sh {
				return p.Extract(a.args[0], hi-sh, lo-sh)
			}
			if hi < sh {
				return p.BV(w, 0)
			}
		}
	case "ite":
		if a.args[1].isConst || a.args[2].isConst {
			return p.Ite(a.args[0], p.Extract(a.args[1], hi, lo), p.Extract(a.args[2], hi, lo))
		}
	}
	return p.mk("extract", w, 0, false, "", hi, lo, a)
}

func (p *TermPool) ZExt(a *Term, w int) *Term {
	if w == a.w {
		return a
	}
	if w < a.w {
		return p.Extract(a, w-1, 0)
	}
	if a.isConst {
		return p.BV(w, a.c)
	}
	if a.op == "zext" {
		return p.ZExt(a.args[0], w)
	}
	return p.mk("zext", w, 0, false, "", w-a.w, 0, a)
}

func (p *TermPool) SExt(a *Term, w int) *Term {
	if w == a.w {
		return a
	}
	if w < a.w {
		return p.Extract(a, w-1, 0)
	}
	if a.isConst {
		return p.BV(w, uint64(sext(a.c, a.w)))
	}
	return p.mk("sext", w, 0, false, "", w-a.w, 0, a)
}

// FCmp builds a float comparison: fp.lt fp.leq fp.eq
// intOfF: if t is an exact integer-valued float term (s2f of a <=32-bit vector, or an integral constant
// in int32 range), return it as a 64-bit signed vector term.
func (p *TermPool) intOfF(t *Term) (*Term, bool) {
	if t.op == "s2f" && t.args[0].w <= 32 {
		return p.SExt(t.args[0], 64), true
	}
	return nil, false
}

// fcmpIntConst compares an integer-valued term x (64-bit signed) with a float constant c.
func (p *TermPool) fcmpIntConst(op string, x *Term, c float64, constLeft bool) *Term {
	if math.IsNaN(c) {
		return p.Bool(false)
	}
	const lim = 1 << 40
	big := c > lim
	small := c < -lim
	fl, ce := math.Floor(c), math.Ceil(c)
	k := func(v float64) *Term { return p.BV(64, uint64(int64(v))) }
	switch op {
	case "fp.lt":
		if !constLeft { // x < c  <=>  x < ceil(c)
			if big {
				return p.Bool(true)
			}
			if small {
				return p.Bool(false)
			}
			return p.Bin("bvslt", x, k(ce))
		}
		// c < x <=> x > floor(c)
		if big {
			return p.Bool(false)
		}
		if small {
			return p.Bool(true)
		}
		return p.Bin("bvslt", k(fl), x)
	case "fp.leq":
		if !constLeft { // x <= c <=> x <= floor(c)
			if big {
				return p.Bool(true)
			}
			if small {
				return p.Bool(false)
			}
			return p.Bin("bvsle", x, k(fl))
		}
		if big {
			return p.Bool(false)
		}
		if small {
			return p.Bool(true)
		}
		return p.Bin("bvsle", k(ce), x)
	case "fp.eq":
		if big || small || fl != c {
			return p.Bool(false)
		}
		return p.Bin("=", x, k(c))
	}
	return nil
}

func (p *TermPool) FCmp(op string, a, b *Term) *Term {
	// comparisons between exactly representable integers are decided in the bit-vector theory
	xa, oka := p.intOfF(a)
	xb, okb := p.intOfF(b)
	switch {
	case oka && okb:
		switch op {
		case "fp.lt":
			return p.Bin("bvslt", xa, xb)
		case "fp.leq":
			return p.Bin("bvsle", xa, xb)
		case "fp.eq":
			return p.Bin("=", xa, xb)
		}
	case oka && b.isConst:
		if r := p.fcmpIntConst(op, xa, math.Float64frombits(b.c), false); r != nil {
			return r
		}
	case okb && a.isConst:
		if r := p.fcmpIntConst(op, xb, math.Float64frombits(a.c), true); r != nil {
			return r
		}
	}
	if a.isConst && b.isConst {
		x, y := math.Float64frombits(a.c), math.Float64frombits(b.c)
		switch op {
		case "fp.lt":
			return p.Bool(x < y)
		case "fp.leq":
			return p.Bool(x <= y)
		case "fp.eq":
			return p.Bool(x == y)
		}
	}
	return p.mk(op, 0, 0, false, "", 0, 0, a, b)
}

func (p *TermPool) FIsNaN(a *Term) *Term {
	if a.isConst {
		return p.Bool(math.IsNaN(math.Float64frombits(a.c)))
	}
	return p.mk("fp.isNaN", 0, 0, false, "", 0, 0, a)
}

func (p *TermPool) FNeg(a *Term) *Term {
	if a.isConst {
		return p.F64(-math.Float64frombits(a.c))
	}
	return p.mk("fp.neg", FW, 0, false, "", 0, 0, a)
}

func (p *TermPool) FArith(op string, a, b *Term) *Term {
	if a.isConst && b.isConst {
		x, y := math.Float64frombits(a.c), math.Float64frombits(b.c)
		switch op {
		case "fp.add":
			return p.F64(x + y)
		case "fp.sub":
			return p.F64(x - y)
		case "fp.mul":
			return p.F64(x * y)
		case "fp.div":
			return p.F64(x / y)
		}
	}
	return p.mk(op, FW, 0, false, "", 0, 0, a, b)
}

// IntToF converts a signed/unsigned bit-vector to float64 (round to nearest even).
func (p *TermPool) IntToF(a *Term, signed bool) *Term {
	if a.isConst {
		if signed {
			return p.F64(float64(sext(a.c, a.w)))
		}
		return p.F64(float64(a.c))
	}
	if signed {
		return p.mk("s2f", FW, 0, false, "", 0, 0, a)
	}
	return p.mk("u2f", FW, 0, false, "", 0, 0, a)
}

// FToInt converts float to a signed bit-vector of width w (round toward zero).
func (p *TermPool) FToInt(a *Term, w int) *Term {
	if a.isConst {
		f := math.Float64frombits(a.c)
		return p.BV(w, uint64(int64(f)))
	}
	return p.mk("f2s", w, 0, false, "", w, 0, a)
}

// UF application: crc over a message of n bytes.
func (p *TermPool) Crc(msg []*Term) *Term {
	n := len(msg)
	if n == 0 {
		return p.BV(32, 0)
	}
	var arg *Term
	if n*8 <= 64 {
		arg = p.Concat(msg)
	} else {
		// Concat cannot fold >64-bit constants; always build a concat node
		arg = p.mk("concat", n*8, 0, false, "", 0, 0, msg...)
	}
	name := fmt.Sprintf("crc_%d", n)
	t := p.mk("uf", 32, 0, false, name, 0, 0, arg)
	return t
}

// UF applies an uninterpreted function name : sort(arg) -> sort(resW).
func (p *TermPool) UF(name string, resW int, arg *Term) *Term {
	return p.mk("uf", resW, 0, false, name, 0, 0, arg)
}

// BigConcat builds a concat node without constant folding (for >64-bit vectors).
func (p *TermPool) BigConcat(bs []*Term) *Term {
	if len(bs) == 1 {
		return bs[0]
	}
	w := 0
	for _, b := range bs {
		w += b.w
	}
	if w <= 64 {
		return p.Concat(bs)
	}
	return p.mk("concat", w, 0, false, "", 0, 0, bs...)
}

func (t *Term) String() string {
	if t.isConst {
		switch t.w {
		case 0:
			if t.c != 0 {
				return "true"
			}
			return "false"
		case FW:
			return fmt.Sprint(math.Float64frombits(t.c))
		}
		return fmt.Sprintf("%d", sext(t.c, t.w))
	}
	if t.op == "var" {
		return t.name
	}
	return fmt.Sprintf("t%d:%s", t.id, t.op)
}

func (t *Term) ref() string {
	if t.isConst {
		switch t.w {
		case 0:
			if t.c != 0 {
				return "true"
			}
			return "false"
		case FW:
			return fmt.Sprintf("((_ to_fp 11 53) #x%016x)", t.c)
		}
		return fmt.Sprintf("(_ bv%d %d)", t.c, t.w)
	}
	if t.op == "var" {
		return t.name
	}
	return fmt.Sprintf("t%d", t.id)
}

func sortOf(w int) string {
	if w == FW {
		return "(_ FloatingPoint 11 53)"
	}
	if w == 0 {
		return "Bool"
	}
	return fmt.Sprintf("(_ BitVec %d)", w)
}

func (t *Term) body() string {
	var sb strings.Builder
	switch t.op {
	case "extract":
		fmt.Fprintf(&sb, "((_ extract %d %d) %s)", t.p1, t.p2, t.args[0].ref())
	case "zext":
		fmt.Fprintf(&sb, "((_ zero_extend %d) %s)", t.p1, t.args[0].ref())
	case "sext":
		fmt.Fprintf(&sb, "((_ sign_extend %d) %s)", t.p1, t.args[0].ref())
	case "frombits":
		fmt.Fprintf(&sb, "((_ to_fp 11 53) %s)", t.args[0].ref())
	case "s2f":
		fmt.Fprintf(&sb, "((_ to_fp 11 53) RNE %s)", t.args[0].ref())
	case "u2f":
		fmt.Fprintf(&sb, "((_ to_fp_unsigned 11 53) RNE %s)", t.args[0].ref())
	case "f2s":
		fmt.Fprintf(&sb, "((_ fp.to_sbv %d) RTZ %s)", t.p1, t.args[0].ref())
	case "fp.add", "fp.sub", "fp.mul", "fp.div":
		fmt.Fprintf(&sb, "(%s RNE %s %s)", t.op, t.args[0].ref(), t.args[1].ref())
	case "uf":
		fmt.Fprintf(&sb, "(%s %s)", t.name, t.args[0].ref())
	default:
		op := t.op
		if op == "asm" {
			op = "concat"
		}
		sb.WriteString("(" + op)
		for _, a := range t.args {
			sb.WriteString(" " + a.ref())
		}
		sb.WriteString(")")
	}
	return sb.String()
}

// emit writes SMT-LIB definitions needed for t (not yet emitted), in dependency order.
func (p *TermPool) emit(t *Term, out *strings.Builder) {
	if t.emitted || t.isConst {
		return
	}
	// iterative DFS to avoid deep recursion
	type fr struct {
		t *Term
		i int
	}
	st := []fr{{t, 0}}
	for len(st) > 0 {
		f := &st[len(st)-1]
		if f.t.emitted || f.t.isConst {
			st = st[:len(st)-1]
			continue
		}
		if f.i < len(f.t.args) {
			a := f.t.args[f.i]
			f.i++
			if !a.emitted && !a.isConst {
				st = append(st, fr{a, 0})
			}
			continue
		}
		x := f.t
		st = st[:len(st)-1]
		x.emitted = true
		if x.op == "var" {
			fmt.Fprintf(out, "(declare-const %s %s)\n", x.name, sortOf(x.w))
			continue
		}
		if x.op == "uf" && !p.ufs[x.name] {
			p.ufs[x.name] = true
			fmt.Fprintf(out, "(declare-fun %s (%s) %s)\n", x.name, sortOf(x.args[0].w), sortOf(x.w))
		}
		fmt.Fprintf(out, "(define-fun t%d () %s %s)\n", x.id, sortOf(x.w), x.body())
	}
}

// standalone renders an assertion set as a self-contained SMT-LIB2 script (for cross-checking).
func standalone(asserts []*Term) string {
	var sb strings.Builder
	seen := map[*Term]bool{}
	ufs := map[string]bool{}
	var visit func(t *Term)
	visit = func(t *Term) {
		if seen[t] || t.isConst {
			return
		}
		seen[t] = true
		for _, a := range t.args {
			visit(a)
		}
		if t.op == "var" {
			fmt.Fprintf(&sb, "(declare-const %s %s)\n", t.name, sortOf(t.w))
			return
		}
		if t.op == "uf" && !ufs[t.name] {
			ufs[t.name] = true
			fmt.Fprintf(&sb, "(declare-fun %s (%s) %s)\n", t.name, sortOf(t.args[0].w), sortOf(t.w))
		}
		fmt.Fprintf(&sb, "(define-fun t%d () %s %s)\n", t.id, sortOf(t.w), t.body())
	}
	for _, a := range asserts {
		visit(a)
	}
	for _, a := range asserts {
		fmt.Fprintf(&sb, "(assert %s)\n", a.ref())
	}
	sb.WriteString("(check-sat)\n")
	return sb.String()
}

// Eval evaluates t under a model of its variables. ok=false if it cannot be evaluated (UF, missing var).
func (p *TermPool) Eval(t *Term, m map[string]uint64, memo map[*Term]uint64) (uint64, bool) {
	if t.isConst {
		return t.c, true
	}
	if v, ok := memo[t]; ok {
		return v, true
	}
	var r uint64
	switch t.op {
	case "var":
		v, ok := m[t.name]
		if !ok {
			v = 0 // unconstrained: any value works; choose 0 consistently
		}
		r = v & maskW(t.w)
	case "uf":
		return 0, false
	default:
		av := make([]uint64, len(t.args))
		for i, a := range t.args {
			v, ok := p.Eval(a, m, memo)
			if !ok {
				return 0, false
			}
			av[i] = v
		}
		switch t.op {
		case "not":
			r = av[0] ^ 1
		case "and":
			r = av[0] & av[1]
		case "or":
			r = av[0] | av[1]
		case "ite":
			if av[0] != 0 {
				r = av[1]
			} else {
				r = av[2]
			}
		case "bvnot":
			r = ^av[0] & mask(t.w)
		case "extract":
			r = (av[0] >> uint(t.p2)) & mask(t.w)
		case "zext":
			r = av[0]
		case "sext":
			r = uint64(sext(av[0], t.args[0].w)) & mask(t.w)
		case "concat", "asm":
			if t.w > 64 {
				return 0, false
			}
			for i, a := range t.args {
				r = r<<uint(a.w) | av[i]
			}
		case "frombits":
			r = av[0]
		case "tobits":
			r = av[0]
		case "fp.lt":
			r = b2u(math.Float64frombits(av[0]) < math.Float64frombits(av[1]))
		case "fp.leq":
			r = b2u(math.Float64frombits(av[0]) <= math.Float64frombits(av[1]))
		case "fp.eq":
			r = b2u(math.Float64frombits(av[0]) == math.Float64frombits(av[1]))
		case "fp.isNaN":
			r = b2u(math.IsNaN(math.Float64frombits(av[0])))
		case "fp.neg":
			r = math.Float64bits(-math.Float64frombits(av[0]))
		case "fp.add":
			r = math.Float64bits(math.Float64frombits(av[0]) + math.Float64frombits(av[1]))
		case "fp.sub":
			r = math.Float64bits(math.Float64frombits(av[0]) - math.Float64frombits(av[1]))
		case "fp.mul":
			r = math.Float64bits(math.Float64frombits(av[0]) * math.Float64frombits(av[1]))
		case "fp.div":
			r = math.Float64bits(math.Float64frombits(av[0]) / math.Float64frombits(av[1]))
		case "s2f":
			r = math.Float64bits(float64(sext(av[0], t.args[0].w)))
		case "u2f":
			r = math.Float64bits(float64(av[0]))
		case "f2s":
			f := math.Float64frombits(av[0])
			if math.IsNaN(f) || f > 9.3e18 || f < -9.3e18 {
				return 0, false
			}
			r = uint64(int64(f)) & mask(t.w)
		case "=":
			if t.args[0].w == FW {
				return 0, false
			}
			r = b2u(av[0] == av[1])
		default:
			w := t.args[0].w
			v, ok := foldBin(t.op, w, av[0], av[1])
			if !ok {
				return 0, false
			}
			if isCmp(t.op) {
				r = v
			} else {
				r = v & mask(w)
			}
		}
	}
	memo[t] = r
	return r, true
}

func maskW(w int) uint64 {
	if w == 0 {
		return 1
	}
	if w == FW {
		return ^uint64(0)
	}
	return mask(w)
}
