#!/bin/bash
# usage: seedtest.sh <seed id> <worktree dir> <property id> <demo test path relative to worktree> <go test pkg> [run regexp]
# Verifies a seeded change (suite passes with it, demo fails with it and passes without), stores it under
# /verif/seeded/<id>/, then runs the property's quick check against /repo with the change applied and undoes it.
set -u
id=$1; wt=$2; prop=$3; demo=$4; pkg=$5; run=${6:-.}
export GOFLAGS=-mod=mod GOPROXY=off GOSUMDB=off GOTOOLCHAIN=local
d=/verif/seeded/$id; mkdir -p $d
( cd $wt && git diff -- . ':(exclude)*_test.go' ':(exclude)mutation.diff' ':(exclude)meta.txt' > $d/patch.diff )
cp $wt/$demo $d/ 2>/dev/null
[ -f $wt/meta.txt ] && cp $wt/meta.txt $d/agent_meta.txt
cd /repo || exit 2
git diff --quiet || { echo "/repo dirty"; exit 2; }
base_ok=$(cp $d/$(basename $demo) /repo/$demo && go test -vet=off -count=1 -run "$run" $pkg >/tmp/seed_base.log 2>&1 && echo pass || echo fail)
git apply $d/patch.diff || { echo "patch does not apply"; rm -f /repo/$demo; exit 2; }
mut_demo=$(go test -vet=off -count=1 -run "$run" $pkg >/tmp/seed_mut.log 2>&1 && echo pass || echo fail)
rm -f /repo/$demo
suite=$(go build ./... && go test -vet=off -count=1 ./... >/tmp/seed_suite.log 2>&1 && echo pass || echo fail)
cd /verif
t0=$(date +%s)
./check.sh $prop quick > $d/check_output.txt 2>&1; rc=$?
t1=$(date +%s)
git -C /repo checkout -- . ; git -C /repo status --short | head -3
echo "seed=$id prop=$prop demo_on_base=$base_ok demo_on_mutant=$mut_demo suite_on_mutant=$suite check_rc=$rc check_s=$((t1-t0))"
grep -m3 "VIOLATION\|INCONCLUSIVE" $d/check_output.txt | cut -c1-250
