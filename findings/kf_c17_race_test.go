package nutsdb

// Native confirmation of KF-C17-merge-without-lock (not part of the registered checks): run with
//   echo '{"Replace":{"/repo/zz_kf_c17_race_test.go":"/verif/findings/kf_c17_race_test.go"}}' > ov.json
//   cd /repo && go test -race -vet=off -count=1 -overlay ov.json -run TestKFC17MergeRace .
// The race detector reports Merge's unlocked accesses (db.isMerging, the B+ tree index) against a
// concurrent Update.

import (
	"io/ioutil"
	"os"
	"sync"
	"testing"
)

func TestKFC17MergeRace(t *testing.T) {
	dir, _ := ioutil.TempDir("", "kfc17")
	defer os.RemoveAll(dir)
	opt := DefaultOptions
	opt.Dir = dir
	opt.SegmentSize = 64
	db, err := Open(opt)
	if err != nil {
		t.Fatal(err)
	}
	for i := 0; i < 6; i++ {
		k := []byte{'k', byte('0' + i)}
		_ = db.Update(func(tx *Tx) error { return tx.Put("a", k, []byte("v"), 0) })
	}
	var wg sync.WaitGroup
	wg.Add(2)
	go func() {
		defer wg.Done()
		_ = db.Merge()
	}()
	go func() {
		defer wg.Done()
		for i := 0; i < 20; i++ {
			k := []byte{'k', byte('0' + i%6)}
			_ = db.Update(func(tx *Tx) error { return tx.Put("a", k, []byte("w"), 0) })
			_ = db.View(func(tx *Tx) error { _, _ = tx.Get("a", k); return nil })
		}
	}()
	wg.Wait()
	db.Close()
}
