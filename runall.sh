#!/bin/bash
# usage: runall.sh [tier] [prop...] — runs the registered checks one after another and prints a summary
tier=${1:-quick}; shift
props=${@:-$(python3 -c "import json;print(' '.join(c['property_id'] for c in json.load(open('/verif/MANIFEST.json'))['checks']))")}
cd /verif
for p in $props; do
  s=$(date +%s)
  ./check.sh $p $tier > /tmp/runall-$p.log 2>&1; rc=$?
  e=$(date +%s)
  echo "$p rc=$rc $((e-s))s $(grep -c KNOWN-FINDING /tmp/runall-$p.log) known; $(grep -m1 'OK property\|VIOLATION\|INCONCLUSIVE' /tmp/runall-$p.log | cut -c1-160)"
done
