package set

// C06 S1 — single-step lemmas on ds/set from arbitrary small states built by the real SAdd.
// Model: per key, a list of pairwise distinct members (distinctness is assumed, so building the
// pre-state forks nowhere). Post-states are compared by inspecting the map directly:
// every stored member satisfies the model's membership predicate and the cardinalities agree.

func b2i(b bool) int { return vIte(b, 1, 0) }

type mset struct {
	present bool
	elems   [][]byte
}

func (m mset) has(x []byte) bool {
	r := false
	for _, e := range m.elems {
		r = vOr(r, vEqBytes(e, x))
	}
	return r
}

func mkMember() []byte {
	if vChoose(2) == 0 {
		return []byte{}
	}
	return vBytes(1)
}

// mkKey builds one key of the pre-state.
func mkKey(s *Set, key string, maxm int) mset {
	n := vChoose(maxm + 2) // 0: absent, 1: present and empty, k+1: k members
	if n == 0 {
		return mset{}
	}
	m := mset{present: true}
	if n == 1 {
		// reachable: add then pop
		s.SAdd(key, []byte{9})
		s.SRem(key, []byte{9})
		return m
	}
	for i := 0; i < n-1; i++ {
		x := mkMember()
		vAssume(vNot(m.has(x)))
		m.elems = append(m.elems, x)
		s.SAdd(key, x)
	}
	return m
}

func checkSet(id string, s *Set, key string, present bool, inPost func([]byte) bool, cnt int) {
	mm, ok := s.M[key]
	vAssert(id+".presence", ok == present)
	if !ok {
		return
	}
	vAssert(id+".card", len(mm) == cnt)
	all := true
	for k := range mm {
		all = vAnd(all, inPost([]byte(k)))
	}
	vAssert(id+".members", all)
}

func unchanged(id string, s *Set, key string, m mset) {
	checkSet(id, s, key, m.present, m.has, len(m.elems))
}

func H_C06_SAdd() {
	s := New()
	a := mkKey(s, "a", vParam("maxm"))
	b := mkKey(s, "b", 1)
	x := mkMember()
	vReach("sadd.call")
	err := s.SAdd("a", x)
	vAssert("sadd.no-error", err == nil)
	checkSet("sadd.post", s, "a", true, func(v []byte) bool { return vOr(a.has(v), vEqBytes(v, x)) }, len(a.elems)+b2i(vNot(a.has(x))))
	unchanged("sadd.other-key", s, "b", b)
}

func H_C06_SAdd2() {
	s := New()
	a := mkKey(s, "a", vParam("maxm"))
	x, y := mkMember(), mkMember()
	vReach("sadd2.call")
	err := s.SAdd("a", x, y)
	vAssert("sadd2.no-error", err == nil)
	cnt := len(a.elems) + b2i(vNot(a.has(x))) + b2i(vAnd(vNot(a.has(y)), vNot(vEqBytes(x, y))))
	checkSet("sadd2.post", s, "a", true, func(v []byte) bool { return vOr(a.has(v), vOr(vEqBytes(v, x), vEqBytes(v, y))) }, cnt)
}

func H_C06_SRem() {
	s := New()
	a := mkKey(s, "a", vParam("maxm"))
	b := mkKey(s, "b", 1)
	x := mkMember()
	vReach("srem.call")
	err := s.SRem("a", x)
	if !a.present {
		vAssert("srem.missing-key-errors", err != nil)
		unchanged("srem.missing-key-state", s, "a", a)
		return
	}
	// set model: removing succeeds (no-op when x is not a member)
	vKnown("KF-C06-srem-empty-member", len(x) == 0)
	vAssert("srem.no-error-on-existing-key", err == nil)
	checkSet("srem.post", s, "a", true, func(v []byte) bool { return vAnd(a.has(v), vNot(vEqBytes(v, x))) }, len(a.elems)-b2i(a.has(x)))
	unchanged("srem.other-key", s, "b", b)
}

func H_C06_Reads() {
	s := New()
	a := mkKey(s, "a", vParam("maxm"))
	x := mkMember()
	vReach("reads.call")
	switch vChoose(5) {
	case 0:
		vAssert("shaskey", s.SHasKey("a") == a.present)
	case 1:
		vAssert("scard", s.SCard("a") == len(a.elems))
	case 2:
		vAssert("sismember", s.SIsMember("a", x) == a.has(x))
	case 3:
		y := mkMember()
		ok, err := s.SAreMembers("a", x, y)
		want := vAnd(a.has(x), a.has(y))
		vAssert("saremembers.value", ok == want)
		vAssert("saremembers.error-iff-false", vImplies(err != nil, vNot(want)))
	case 4:
		l, err := s.SMembers("a")
		if !a.present {
			vAssert("smembers.missing-key", vAnd(err != nil, len(l) == 0))
			return
		}
		vAssert("smembers.ok", err == nil)
		vAssert("smembers.count", len(l) == len(a.elems))
		all := true
		for i := range l {
			all = vAnd(all, a.has(l[i]))
			for j := 0; j < i; j++ {
				all = vAnd(all, vNot(vEqBytes(l[i], l[j])))
			}
		}
		vAssert("smembers.elements", all)
	}
	unchanged("reads.state", s, "a", a)
}

func H_C06_SPop() {
	s := New()
	a := mkKey(s, "a", vParam("maxm"))
	vReach("spop.call")
	r := s.SPop("a")
	if len(a.elems) == 0 {
		vAssert("spop.empty-returns-nil", r == nil)
		unchanged("spop.empty-state", s, "a", a)
		return
	}
	vAssert("spop.returns-member", vAnd(r != nil, a.has(r)))
	checkSet("spop.post", s, "a", true, func(v []byte) bool { return vAnd(a.has(v), vNot(vEqBytes(v, r))) }, len(a.elems)-1)
}

// binary operations: result compared as a set with the model
func H_C06_Binary() {
	s := New()
	a := mkKey(s, "a", vParam("maxm"))
	b := mkKey(s, "b", vParam("maxm"))
	op := vChoose(3)
	vReach("binary.call")
	var l [][]byte
	var err error
	var in func(v []byte) bool
	switch op {
	case 0:
		l, err = s.SDiff("a", "b")
		in = func(v []byte) bool { return vAnd(a.has(v), vNot(b.has(v))) }
	case 1:
		l, err = s.SInter("a", "b")
		in = func(v []byte) bool { return vAnd(a.has(v), b.has(v)) }
	default:
		l, err = s.SUnion("a", "b")
		in = func(v []byte) bool { return vOr(a.has(v), b.has(v)) }
	}
	if !a.present || !b.present {
		vAssert("binary.missing-key", vAnd(err != nil, len(l) == 0))
		return
	}
	vAssert("binary.ok", err == nil)
	// every returned element is in the model result, no duplicates, and every model element is returned
	all := true
	for i := range l {
		all = vAnd(all, in(l[i]))
		for j := 0; j < i; j++ {
			all = vAnd(all, vNot(vEqBytes(l[i], l[j])))
		}
	}
	vAssert("binary.sound", all)
	complete := true
	for _, e := range append(append([][]byte{}, a.elems...), b.elems...) {
		found := false
		for i := range l {
			found = vOr(found, vEqBytes(l[i], e))
		}
		complete = vAnd(complete, vImplies(in(e), found))
	}
	vAssert("binary.complete", complete)
	unchanged("binary.state-a", s, "a", a)
	unchanged("binary.state-b", s, "b", b)
}

func H_C06_SMove() {
	s := New()
	a := mkKey(s, "a", vParam("maxm"))
	b := mkKey(s, "b", vParam("maxm"))
	x := mkMember()
	vReach("smove.call")
	ok, err := s.SMove("a", "b", x)
	if !a.present || !b.present {
		vAssert("smove.missing-key", vAnd(err != nil, vNot(ok)))
		unchanged("smove.missing-key-a", s, "a", a)
		unchanged("smove.missing-key-b", s, "b", b)
		return
	}
	vAssert("smove.no-error", err == nil)
	isMem := a.has(x)
	// model: a member moves; a non-member changes nothing
	vAssert("smove.result", ok == isMem)
	checkSet("smove.source", s, "a", true, func(v []byte) bool { return vAnd(a.has(v), vNot(vEqBytes(v, x))) }, len(a.elems)-b2i(isMem))
	checkSet("smove.dest", s, "b", true, func(v []byte) bool { return vOr(b.has(v), vAnd(isMem, vEqBytes(v, x))) }, len(b.elems)+b2i(vAnd(isMem, vNot(b.has(x)))))
}
