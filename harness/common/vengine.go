//go:build gosmt

package PKG

// Engine-side declarations of the harness intrinsics. The bodies are never executed: the symbolic
// executor (gosmt) intercepts every call by name. See harness/common/vnative.go for the native
// bodies used when a solver model is replayed against the real build.

func vNondetInt() int           { return 0 }
func vNondetInt64() int64       { return 0 }
func vNondetUint64() uint64     { return 0 }
func vNondetUint32() uint32     { return 0 }
func vNondetInt32() int32       { return 0 }
func vNondetUint16() uint16     { return 0 }
func vNondetByte() byte         { return 0 }
func vNondetBool() bool         { return false }
func vNondetFloat64() float64   { return 0 }
func vBytes(n int) []byte       { return nil }
func vChoose(n int) int         { return 0 }
func vAssume(c bool)            {}
func vAssert(id string, c bool) {}
func vFail(id string)           {}
func vReach(id string)          {}
func vKnown(id string, r bool)  {}

func vObserveInt(tag string, v int)        {}
func vObserveBool(tag string, v bool)      {}
func vObserveBytes(tag string, v []byte)   {}
func vObserveStr(tag string, v string)     {}
func vObserveFloat(tag string, v float64)  {}

func vAnd(a, b bool) bool             { return a && b }
func vOr(a, b bool) bool              { return a || b }
func vNot(a bool) bool                { return !a }
func vImplies(a, b bool) bool         { return !a || b }
func vIte(c bool, a, b int) int       { return a }
func vEqBytes(a, b []byte) bool       { return false }
func vLessBytes(a, b []byte) bool     { return false }
func vLeqBytes(a, b []byte) bool      { return false }
func vEqStr(a, b string) bool         { return false }
func vLessStr(a, b string) bool       { return false }
func vHasPrefix(a, p []byte) bool     { return false }
func vParam(name string) int          { return 0 }
func vEngine() bool                   { return true }
func vIsConcrete(b bool) bool         { return true }
func vTrace(on bool)                  {}
