//go:build !gosmt

package PKG

// Native bodies of the harness intrinsics: a recorded solver model (the vector of nondeterministic
// values, in call order) is fed back to the same harness function running against the real build.

import (
	"bytes"
	"encoding/hex"
	"encoding/json"
	"fmt"
	"math"
	"os"
	"strings"
	"testing"
)

type vInputT struct {
	Kind string `json:"kind"`
	Val  uint64 `json:"val"`
}

type vObsT struct {
	Tag string `json:"tag"`
	Val string `json:"val"`
}

type vReplayT struct {
	Harness string         `json:"harness"`
	Params  map[string]int `json:"params"`
	Inputs  []vInputT      `json:"inputs"`
	Expect  string         `json:"expect"`
	Tries   int            `json:"tries"`
	Obs     []vObsT        `json:"obs"`
}

type vSkip struct{}

var (
	vIn     []vInputT
	vPos    int
	vFails  []string
	vObs    []vObsT
	vParams map[string]int
	vPredicted []vObsT // observations predicted by the engine for this replay
	vBadKind int
	vT      *testing.T
)

func vNext(kind string) uint64 {
	if vPos >= len(vIn) {
		vPos++
		return 0
	}
	x := vIn[vPos]
	vPos++
	if x.Kind != kind && x.Kind != "?" {
		vBadKind++
	}
	return x.Val
}

func vNondetInt() int         { return int(vNext("int64")) }
func vNondetInt64() int64     { return int64(vNext("int64")) }
func vNondetUint64() uint64   { return vNext("uint64") }
func vNondetUint32() uint32   { return uint32(vNext("uint32")) }
func vNondetInt32() int32     { return int32(uint32(vNext("int32"))) }
func vNondetUint16() uint16   { return uint16(vNext("uint16")) }
func vNondetByte() byte       { return byte(vNext("byte")) }
func vNondetBool() bool       { return vNext("bool") != 0 }
func vNondetFloat64() float64 { return math.Float64frombits(vNext("float64")) }
func vBytes(n int) []byte {
	b := make([]byte, n)
	for i := range b {
		b[i] = vNondetByte()
	}
	return b
}
func vChoose(n int) int {
	v := int(vNext("choose"))
	if v < 0 || v >= n {
		vBadKind++
		if n > 0 {
			v = n - 1
		} else {
			v = 0
		}
	}
	return v
}
func vAssume(c bool) {
	if !c {
		panic(vSkip{})
	}
}
func vAssert(id string, c bool) {
	if !c {
		vFails = append(vFails, id)
	}
}
func vFail(id string)          { vFails = append(vFails, id) }
func vReach(id string)         {}
func vKnown(id string, r bool) {}

func vObserveInt(tag string, v int)       { vObs = append(vObs, vObsT{tag, fmt.Sprint(v)}) }
func vObserveBool(tag string, v bool)     { vObs = append(vObs, vObsT{tag, fmt.Sprint(v)}) }
func vObserveBytes(tag string, v []byte)  { vObs = append(vObs, vObsT{tag, hex.EncodeToString(v)}) }
func vObserveStr(tag string, v string)    { vObs = append(vObs, vObsT{tag, hex.EncodeToString([]byte(v))}) }
func vObserveFloat(tag string, v float64) { vObs = append(vObs, vObsT{tag, "?"}) }

func vAnd(a, b bool) bool     { return a && b }
func vOr(a, b bool) bool      { return a || b }
func vNot(a bool) bool        { return !a }
func vImplies(a, b bool) bool { return !a || b }
func vIte(c bool, a, b int) int {
	if c {
		return a
	}
	return b
}
func vEqBytes(a, b []byte) bool   { return bytes.Equal(a, b) }
func vLessBytes(a, b []byte) bool { return bytes.Compare(a, b) < 0 }
func vLeqBytes(a, b []byte) bool  { return bytes.Compare(a, b) <= 0 }
func vEqStr(a, b string) bool     { return a == b }
func vLessStr(a, b string) bool   { return a < b }
func vHasPrefix(a, p []byte) bool { return bytes.HasPrefix(a, p) }
func vParam(name string) int      { return vParams[name] }
func vEngine() bool               { return false }
func vIsConcrete(b bool) bool     { return true }
func vTrace(on bool)              {}

type vResultT struct {
	File    string   `json:"file"`
	Harness string   `json:"harness"`
	Fails   []string `json:"fails"`
	Panic   string   `json:"panic"`
	Skipped bool     `json:"skipped"`
	Obs     []vObsT  `json:"obs"`
	Tries   int      `json:"tries"`
	Used    int      `json:"used"`
	BadKind int      `json:"badkind"`
}

func vRunOnce(fn func(), rf *vReplayT) (res vResultT) {
	vIn, vPos, vFails, vObs, vParams, vBadKind = rf.Inputs, 0, nil, nil, rf.Params, 0
	vPredicted = rf.Obs
	defer func() {
		if r := recover(); r != nil {
			if _, ok := r.(vSkip); ok {
				res.Skipped = true
			} else {
				res.Panic = fmt.Sprint(r)
				if res.Panic == "" {
					res.Panic = "panic"
				}
			}
		}
		res.Fails, res.Obs, res.Used, res.BadKind = vFails, vObs, vPos, vBadKind
	}()
	fn()
	return
}

func vMatches(res vResultT, rf *vReplayT) bool {
	expect := rf.Expect
	if strings.HasPrefix(expect, "panic") {
		return res.Panic != ""
	}
	switch expect {
	case "witness":
		if res.Panic != "" || len(res.Fails) > 0 || len(res.Obs) != len(rf.Obs) {
			return false
		}
		for i := range res.Obs {
			if res.Obs[i].Tag != rf.Obs[i].Tag || (res.Obs[i].Val != rf.Obs[i].Val && !strings.Contains(rf.Obs[i].Val, "?")) {
				return false
			}
		}
		return true
	}
	for _, f := range res.Fails {
		if f == expect {
			return true
		}
	}
	return false
}

// vReplayMain is called by the generated TestVReplay with the table of harness functions.
func vReplayMain(t *testing.T, table map[string]func()) {
	vT = t
	files := strings.Split(os.Getenv("GOSMT_REPLAY"), ",")
	for _, f := range files {
		if f == "" {
			continue
		}
		b, err := os.ReadFile(f)
		if err != nil {
			t.Fatalf("replay file: %v", err)
		}
		var rf vReplayT
		if err := json.Unmarshal(b, &rf); err != nil {
			t.Fatalf("replay file %s: %v", f, err)
		}
		fn := table[rf.Harness]
		if fn == nil {
			t.Fatalf("no harness %q in this package", rf.Harness)
		}
		tries := rf.Tries
		if tries < 1 {
			tries = 1
		}
		var res vResultT
		n := 0
		for n < tries {
			n++
			res = vRunOnce(fn, &rf)
			if vMatches(res, &rf) {
				break
			}
		}
		res.File, res.Harness, res.Tries = f, rf.Harness, n
		out, _ := json.Marshal(res)
		fmt.Printf("\nVREPLAY %s\n", out)
	}
}
