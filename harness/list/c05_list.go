package list

// C05 D1 — single-step lemmas on ds/list: from an arbitrary small list state (built by the real RPush),
// one operation with fully symbolic 64-bit arguments must not panic and must agree with a Redis-style
// model. The oracle is written declaratively (vIte/vAnd/...) so that it forks nowhere.

func b2i(b bool) int { return vIte(b, 1, 0) }

// mkList builds the pre-state through the real API. Returns the list, the model elements, whether the
// key exists.
func mkList(maxlen int) (*List, [][]byte, bool) {
	l := New()
	n := vChoose(maxlen + 1)
	if n == 0 {
		switch vChoose(3) {
		case 0: // key never written
			return l, nil, false
		case 1: // key exists with an empty list (push then pop)
			l.RPush("k", []byte{1})
			l.LPop("k")
			return l, nil, true
		default: // another key exists, "k" does not
			l.RPush("other", []byte{7})
			return l, nil, false
		}
	}
	empty := vChoose(n + 1) // index of an element that is the empty value (n: none)
	items := make([][]byte, n)
	for i := range items {
		if i == empty {
			items[i] = []byte{}
		} else {
			items[i] = vBytes(1)
		}
	}
	for _, it := range items {
		l.RPush("k", it)
	}
	return l, items, true
}

// sameList asserts that the stored list equals want (elementwise), without forking.
func sameList(id string, l *List, want [][]byte) {
	got := l.Items["k"]
	vAssert(id+".len", len(got) == len(want))
	if len(got) != len(want) {
		return
	}
	ok := true
	for i := range want {
		ok = vAnd(ok, vEqBytes(got[i], want[i]))
	}
	vAssert(id+".elems", ok)
}

func normIdx(i, n int) int { return vIte(i < 0, i+n, i) }

func H_C05_LRange() {
	l, items, present := mkList(vParam("maxlen"))
	n := len(items)
	s, e := vNondetInt(), vNondetInt()
	vReach("lrange.call")
	r, err := l.LRange("k", s, e)
	if !present {
		vAssert("lrange.missing-key-errors", err != nil)
		return
	}
	s1, e1 := normIdx(s, n), normIdx(e, n)
	s2 := vIte(s1 < 0, 0, s1)
	e2 := vIte(e1 >= n, n-1, e1)
	empty := vOr(s2 > e2, s2 >= n)
	outOfRange := vOr(vOr(s1 < 0, s1 >= n), vOr(e1 < 0, e1 >= n))
	if err != nil {
		vAssert("lrange.error-only-when-out-of-range-or-empty", vOr(outOfRange, empty))
	} else {
		vAssert("lrange.success-implies-nonempty-model", vNot(empty))
		vAssert("lrange.length", len(r) == e2-s2+1)
		ok := true
		for j := range r {
			for i := range items {
				ok = vAnd(ok, vImplies(s2+j == i, vEqBytes(r[j], items[i])))
			}
		}
		vAssert("lrange.elements", ok)
		vObserveInt("lrange.n", len(r))
	}
	sameList("lrange.state-unchanged", l, items)
}

func H_C05_LTrim() {
	l, items, present := mkList(vParam("maxlen"))
	n := len(items)
	s, e := vNondetInt(), vNondetInt()
	vReach("ltrim.call")
	err := l.Ltrim("k", s, e)
	if !present {
		vAssert("ltrim.missing-key-errors", err != nil)
		return
	}
	s1, e1 := normIdx(s, n), normIdx(e, n)
	s2 := vIte(s1 < 0, 0, s1)
	e2 := vIte(e1 >= n, n-1, e1)
	empty := vOr(s2 > e2, s2 >= n)
	outOfRange := vOr(vOr(s1 < 0, s1 >= n), vOr(e1 < 0, e1 >= n))
	if err != nil {
		vAssert("ltrim.error-only-when-out-of-range-or-empty", vOr(outOfRange, empty))
		sameList("ltrim.error-leaves-state", l, items)
		return
	}
	got := l.Items["k"]
	vAssert("ltrim.success-implies-nonempty-model", vNot(empty))
	vAssert("ltrim.length", len(got) == e2-s2+1)
	ok := true
	for j := range got {
		for i := range items {
			ok = vAnd(ok, vImplies(s2+j == i, vEqBytes(got[j], items[i])))
		}
	}
	vAssert("ltrim.elements", ok)
	vObserveInt("ltrim.n", len(got))
}

func H_C05_LRem() {
	l, items, present := mkList(vParam("maxlen"))
	n := len(items)
	c := vNondetInt()
	var v []byte
	if vChoose(2) == 0 {
		v = vBytes(1)
	} else {
		v = []byte{}
	}
	vReach("lrem.call")
	removed, err := l.LRem("k", c, v)
	if !present {
		vAssert("lrem.missing-key-errors", err != nil)
		return
	}
	// model
	match := make([]bool, n)
	k := 0
	for i := range items {
		match[i] = vEqBytes(items[i], v)
		k += b2i(match[i])
	}
	absc := vIte(c < 0, -c, c) // |c|; c = MinInt64 stays negative, handled by the 'tooBig' latitude below
	tooBig := vOr(absc > n, absc < 0)
	if err != nil {
		vAssert("lrem.error-only-when-count-exceeds-size", tooBig)
		sameList("lrem.error-leaves-state", l, items)
		return
	}
	want := vIte(c == 0, k, vIte(absc < k, absc, k))
	vAssert("lrem.count", vImplies(vNot(tooBig), removed == want))
	// which elements are removed
	rem := make([]bool, n)
	if n > 0 {
		before := 0
		for i := 0; i < n; i++ { // from the head (c >= 0)
			rem[i] = vAnd(c >= 0, vAnd(match[i], vOr(c == 0, before < absc)))
			before += b2i(match[i])
		}
		after := 0
		for i := n - 1; i >= 0; i-- { // from the tail (c < 0)
			rem[i] = vOr(rem[i], vAnd(c < 0, vAnd(match[i], after < absc)))
			after += b2i(match[i])
		}
	}
	got := l.Items["k"]
	kept := 0
	ok := true
	for i := 0; i < n; i++ {
		for j := range got {
			ok = vAnd(ok, vImplies(vAnd(vNot(rem[i]), kept == j), vEqBytes(got[j], items[i])))
		}
		kept += b2i(vNot(rem[i]))
	}
	vAssert("lrem.post-length", vImplies(vNot(tooBig), len(got) == kept))
	vAssert("lrem.post-elements", vImplies(vNot(tooBig), ok))
	vObserveInt("lrem.removed", removed)
}

func H_C05_LSet() {
	l, items, present := mkList(vParam("maxlen"))
	n := len(items)
	idx := vNondetInt()
	v := vBytes(1)
	vReach("lset.call")
	err := l.LSet("k", idx, v)
	if !present {
		vAssert("lset.missing-key-errors", err != nil)
		return
	}
	inRange := vAnd(idx >= 0, idx < n)
	if err != nil {
		vAssert("lset.error-only-when-out-of-range", vNot(inRange))
		sameList("lset.error-leaves-state", l, items)
		return
	}
	vAssert("lset.success-only-in-range", inRange)
	got := l.Items["k"]
	vAssert("lset.length", len(got) == n)
	ok := true
	for i := range got {
		if i < n {
			ok = vAnd(ok, vIteB(idx == i, vEqBytes(got[i], v), vEqBytes(got[i], items[i])))
		}
	}
	vAssert("lset.elements", ok)
}

func vIteB(c, a, b bool) bool { return vOr(vAnd(c, a), vAnd(vNot(c), b)) }

func H_C05_Push() {
	l, items, _ := mkList(vParam("maxlen"))
	n := len(items)
	nv := 1 + vChoose(2)
	vals := make([][]byte, nv)
	for i := range vals {
		vals[i] = vBytes(1)
	}
	left := vChoose(2) == 0
	vReach("push.call")
	var size int
	var err error
	var want [][]byte
	if left {
		size, err = l.LPush("k", vals...)
		for i := nv - 1; i >= 0; i-- {
			want = append(want, vals[i])
		}
		want = append(want, items...)
	} else {
		size, err = l.RPush("k", vals...)
		want = append(append(want, items...), vals...)
	}
	vAssert("push.no-error", err == nil)
	vAssert("push.size", size == n+nv)
	sameList("push.state", l, want)
	vObserveInt("push.size", size)
}

func H_C05_PopPeek() {
	l, items, present := mkList(vParam("maxlen"))
	n := len(items)
	op := vChoose(5)
	vReach("pop.call")
	switch op {
	case 0:
		it, err := l.LPop("k")
		if n == 0 {
			vAssert("lpop.empty-errors", err != nil)
			if present {
				sameList("lpop.empty-state", l, items)
			}
			return
		}
		vAssert("lpop.ok", err == nil)
		vAssert("lpop.value", vEqBytes(it, items[0]))
		sameList("lpop.state", l, items[1:])
	case 1:
		it, err := l.RPop("k")
		if n == 0 {
			vAssert("rpop.empty-errors", err != nil)
			if present {
				sameList("rpop.empty-state", l, items)
			}
			return
		}
		vAssert("rpop.ok", err == nil)
		vAssert("rpop.value", vEqBytes(it, items[n-1]))
		sameList("rpop.state", l, items[:n-1])
	case 2:
		it, err := l.LPeek("k")
		if n == 0 {
			vAssert("lpeek.empty-errors", err != nil)
			return
		}
		vAssert("lpeek.ok", err == nil)
		vAssert("lpeek.value", vEqBytes(it, items[0]))
		sameList("lpeek.state", l, items)
	case 3:
		it, sz, err := l.RPeek("k")
		if n == 0 {
			vAssert("rpeek.empty-errors", err != nil)
			return
		}
		vAssert("rpeek.ok", err == nil)
		vAssert("rpeek.size", sz == n)
		vAssert("rpeek.value", vEqBytes(it, items[n-1]))
		sameList("rpeek.state", l, items)
	case 4:
		sz, err := l.Size("k")
		if !present {
			vAssert("size.missing-key-errors", err != nil)
			return
		}
		vAssert("size.ok", err == nil)
		vAssert("size.value", sz == n)
	}
}

// H_C05_Seq: a short sequence of operations (state carried through the real code), checking the final
// list against the model applied step by step. Pushes and pops only (their model needs no search).
func H_C05_Seq() {
	l := New()
	var model [][]byte
	steps := vParam("steps")
	vReach("seq.start")
	for s := 0; s < steps; s++ {
		switch vChoose(4) {
		case 0:
			v := vBytes(1)
			l.RPush("k", v)
			model = append(model, v)
		case 1:
			v := vBytes(1)
			l.LPush("k", v)
			model = append([][]byte{v}, model...)
		case 2:
			it, err := l.LPop("k")
			if len(model) == 0 {
				vAssert("seq.lpop-empty", err != nil)
			} else {
				vAssert("seq.lpop", vAnd(err == nil, vEqBytes(it, model[0])))
				model = model[1:]
			}
		case 3:
			it, err := l.RPop("k")
			if len(model) == 0 {
				vAssert("seq.rpop-empty", err != nil)
			} else {
				vAssert("seq.rpop", vAnd(err == nil, vEqBytes(it, model[len(model)-1])))
				model = model[:len(model)-1]
			}
		}
	}
	if _, ok := l.Items["k"]; ok {
		sameList("seq.final", l, model)
	} else {
		vAssert("seq.final-absent", len(model) == 0)
	}
}
