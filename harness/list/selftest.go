package list

import (
	"bytes"
	"encoding/binary"
	"errors"
	"hash/crc32"
	"sort"
	"strconv"
	"strings"
)

type stNode struct {
	Keys    [3]int64
	IsLeaf  uint16
	KeysNum uint16
	Addr    int64
}

type stByLen [][]byte

func (s stByLen) Len() int           { return len(s) }
func (s stByLen) Less(i, j int) bool { return len(s[i]) < len(s[j]) || (len(s[i]) == len(s[j]) && bytes.Compare(s[i], s[j]) < 0) }
func (s stByLen) Swap(i, j int)      { s[i], s[j] = s[j], s[i] }

// Translator self-test (registered under C21, group "translator-selftest"): Go constructs with
// easy-to-get-wrong semantics are executed on solver-chosen inputs and every result is observed;
// the witness replay runs the same function natively on the same inputs and compares all
// observations. It asserts nothing about nutsdb: a mismatch is INCONCLUSIVE engine-mismatch.

type stShape interface{ area() int }
type stRect struct{ w, h int }
type stSq struct{ s int }

func (r stRect) area() int { return r.w * r.h }
func (s *stSq) area() int  { return s.s * s.s }

type stPair struct {
	a int32
	b [2]uint8
}

var errSelf = errors.New("self")

func stRecover(f func()) (msg int) {
	defer func() {
		if r := recover(); r != nil {
			msg = 1
			if e, ok := r.(error); ok && e == errSelf {
				msg = 2
			}
		}
	}()
	f()
	return 0
}

func H_Self_Semantics() {
	x, y := vNondetInt64(), vNondetInt64()
	u := vNondetUint32()
	b := vNondetByte()
	sh := uint(vChoose(4)) * 21 // 0, 21, 42, 63
	which := vChoose(8)
	vReach("self.run")
	switch which {
	case 0: // integer arithmetic: wrap-around, signed division and remainder, shifts, conversions
		vAssume(y != 0)
		vAssume(vNot(vAnd(x == -1<<63, y == -1))) // overflow case of the division is implementation-specific only in C; Go defines it, keep it out of the solver's way
		vObserveInt("add", int(x+y))
		vObserveInt("mul", int(x*3-y*5))
		vObserveInt("div", int(x/y))
		vObserveInt("rem", int(x%y))
		vObserveInt("shl", int(x<<sh))
		vObserveInt("shr", int(x>>sh))
		vObserveInt("ushr", int(uint64(x)>>sh))
		vObserveInt("shl64", int(x<<(sh+22)))
		vObserveInt("i8", int(int8(x)))
		vObserveInt("u16", int(uint16(y)))
		vObserveInt("u32wrap", int(u+u))
		vObserveInt("u32to64", int(uint64(u)<<8))
		vObserveInt("i32sext", int(int64(int32(u))))
		vObserveInt("andnot", int(x&^y))
		vObserveInt("xor", int(x^y))
		vObserveInt("neg", int(-x))
		vObserveInt("byteadd", int(b+200))
		vObserveBool("ucmp", uint64(x) < uint64(y))
		vObserveBool("scmp", x < y)
	case 1: // slices: aliasing, append growth, copy overlap, full slice expressions, nil vs empty
		s := []byte{b, b + 1, b + 2, b + 3}
		t := s[1:3]
		t[0] = 99
		vObserveBytes("alias", s)
		t = append(t, 7) // fits: overwrites s[3]
		vObserveBytes("append-in-place", s)
		t2 := append(s[1:2:2], 8) // capacity 1: reallocates
		t2[0] = 55
		vObserveBytes("append-realloc", s)
		vObserveBytes("t2", t2)
		copy(s[1:], s[:3])
		vObserveBytes("copy-overlap", s)
		var nilS []byte
		vObserveBool("nil", nilS == nil)
		vObserveBool("empty-not-nil", []byte{} != nil)
		vObserveInt("len-cap", len(s[:2])*10+cap(s[2:]))
		vObserveInt("cmp", bytes.Compare(s, t2))
		arr := [3]int{1, 2, 3}
		arr2 := arr
		arr2[0] = int(b)
		vObserveInt("array-copy", arr[0]*1000+arr2[0])
	case 2: // maps, structs, value semantics, range over a sorted key set
		m := map[string]int{}
		m["a"] = int(b)
		m["b"] = 2
		m["a"]++
		delete(m, "zz")
		v, ok := m["c"]
		vObserveInt("map", m["a"]*100+len(m)*10+v)
		vObserveBool("missing", ok)
		var keys []string
		for k := range m {
			keys = append(keys, k)
		}
		sort.Strings(keys)
		vObserveStr("keys", strings.Join(keys, ","))
		p := stPair{a: int32(u), b: [2]uint8{b, 1}}
		q := p
		q.b[0]++
		pp := &p
		pp.a++
		vObserveInt("struct", int(p.a)-int(q.a)+int(p.b[0])*7+int(q.b[0]))
		vObserveBool("struct-eq", p == q)
		mp := map[stPair]int{p: 1}
		mp[q] += 2
		vObserveInt("struct-key", len(mp)*10+mp[p])
	case 3: // interfaces, method sets, type switches, closures
		shapes := []stShape{stRect{int(b), 2}, &stSq{3}}
		total := 0
		for i, s := range shapes {
			switch t := s.(type) {
			case stRect:
				total += t.w
			case *stSq:
				t.s += i
			}
			total += s.area()
		}
		vObserveInt("shapes", total)
		var sh2 stShape
		_, isSq := sh2.(*stSq)
		vObserveBool("nil-iface-assert", isSq)
		acc := 0
		var fs []func()
		for i := 0; i < 3; i++ {
			i := i
			fs = append(fs, func() { acc = acc*10 + i + int(b&1) })
		}
		for _, f := range fs {
			f()
		}
		vObserveInt("closures", acc)
	case 4: // defer order, named results, recover of runtime panics and of panic(err)
		order := 0
		func() {
			defer func() { order = order*10 + 1 }()
			defer func() { order = order*10 + 2 }()
			order = 3
		}()
		vObserveInt("defer-order", order)
		idx := int(b)
		s := []int{1, 2, 3}
		vObserveInt("index-panic", stRecover(func() { _ = s[idx] }))
		var nm map[string]int
		vObserveInt("nil-map-write", stRecover(func() { nm["x"] = 1 }))
		vObserveInt("nil-map-read", stRecover(func() { _ = nm["x"] }))
		vObserveInt("div0", stRecover(func() { _ = idx / (idx - idx) }))
		vObserveInt("custom", stRecover(func() { panic(errSelf) }))
		var np *stSq
		vObserveInt("nil-deref", stRecover(func() { _ = np.s }))
		vObserveInt("slice-bounds", stRecover(func() { _ = s[2:idx%8] }))
		vObserveInt("conv", stRecover(func() { var e interface{} = 1; _ = e.(string) }))
	case 5: // strings and bytes helpers the code under test uses, binary encoding
		str := string([]byte{'a', b, '|', 'c'})
		parts := strings.Split(str, "|")
		vObserveInt("split", len(parts))
		vObserveStr("part0", parts[0])
		parts2 := strings.SplitN("x|"+str, "|", 2)
		vObserveStr("splitn1", parts2[1])
		vObserveBool("contains", strings.Contains(str, "|"))
		vObserveBool("hasprefix", bytes.HasPrefix([]byte(str), []byte{'a', 'b'}))
		vObserveBool("less", str < "ab|c")
		buf := make([]byte, 12)
		binary.LittleEndian.PutUint64(buf[2:], uint64(x))
		binary.LittleEndian.PutUint16(buf[0:], uint16(u))
		vObserveInt("le64", int(binary.LittleEndian.Uint64(buf[2:])))
		vObserveInt("le32", int(binary.LittleEndian.Uint32(buf[1:])))
		vObserveBytes("buf", buf)
		vObserveStr("concat", str+string(rune('0'+b%10)))
		vObserveInt("strlen", len(str+"é"))
		vObserveInt("str-index", int(str[1]))
	case 6: // bytes.Buffer, binary.Write/Read of a fixed-size struct, sort.Sort / sort.Ints, strconv
		var bb bytes.Buffer
		bb.Write([]byte{b, 2})
		bb.WriteString("|")
		cn := []int{-12, 0, 7, 1 << 40}[vChoose(4)] // decimal conversion is only modelled for concrete integers
		bb.Write([]byte(strconv.Itoa(cn)))
		vObserveBytes("buffer", bb.Bytes())
		n := stNode{Keys: [3]int64{x, y, -1}, IsLeaf: uint16(u), KeysNum: uint16(b), Addr: x ^ y}
		var wb bytes.Buffer
		err := binary.Write(&wb, binary.LittleEndian, n)
		vObserveBool("write-ok", err == nil)
		vObserveInt("encoded-len", wb.Len())
		var back stNode
		err = binary.Read(bytes.NewBuffer(wb.Bytes()), binary.LittleEndian, &back)
		vObserveBool("read-ok", err == nil)
		vObserveBool("roundtrip", back == n)
		vObserveBytes("encoded", wb.Bytes())
		ss := stByLen{{b}, {1, 2}, {}, {b + 1}, {0}}
		sort.Sort(ss)
		var flat []byte
		for _, e := range ss {
			flat = append(flat, byte(len(e)))
			flat = append(flat, e...)
		}
		vObserveBytes("sorted", flat)
		is := []int{int(b), 5, -3, int(int8(b))}
		sort.Ints(is)
		vObserveInt("ints", is[0]*1000000+is[1]*10000+is[2]*100+is[3])
		v, perr := strconv.Atoi(strconv.Itoa(cn))
		vObserveInt("atoi", v)
		vObserveBool("atoi-ok", perr == nil)
	case 7: // checksums over known bytes, multi-value returns, labelled break/continue, goto-free loops, switch fallthrough
		data := []byte{b, b ^ 0xff, 3}
		c1 := crc32.ChecksumIEEE(data)
		c2 := crc32.ChecksumIEEE([]byte{b, b ^ 0xff, 3})
		c3 := crc32.ChecksumIEEE([]byte{b, b ^ 0xff, 4})
		vObserveBool("crc-deterministic", c1 == c2)
		vObserveBool("crc-differs", c1 != c3)
		cnt := 0
	outer:
		for i := 0; i < 4; i++ {
			for j := 0; j < 4; j++ {
				if j == int(b&3) {
					continue outer
				}
				if i == 3 {
					break outer
				}
				cnt += 10*i + j
			}
		}
		vObserveInt("labels", cnt)
		f := 0
		switch b & 3 {
		case 0:
			f += 1
			fallthrough
		case 1:
			f += 10
		case 2, 3:
			f += 100
		}
		vObserveInt("fallthrough", f)
		q, r := divmod(int(int8(b)), 7)
		vObserveInt("divmod", q*100+r)
		var arr [4]uint16
		for i := range arr {
			arr[i] = uint16(b) << uint(i*4)
		}
		vObserveInt("array-loop", int(arr[0])+int(arr[1])+int(arr[2])+int(arr[3]))
		bs := []byte("hello")
		copy(bs[1:], "EY")
		vObserveBytes("copy-from-string", bs)
	}
}

func divmod(a, b int) (q, r int) {
	defer func() { r += 0 }()
	return a / b, a % b
}
