package nutsdb

import (
	"bytes"
	"regexp"
)

// C03 — paginated scans page through live keys: PrefixScan(bucket, prefix, offset, limit) returns the
// live prefixed keys in ascending order after skipping `offset` of them, at most `limit` when limit > 0.
// Deleted and expired keys neither appear nor consume offset or limit.
// C04 — buckets are isolated namespaces (adversarial bucket names and keys).

// checkWindow: got must be the live selected writes ranked (offset, offset+limit] by key.
func checkWindow(id string, got Entries, err error, h []kvWrite, bucket string, now int64, in func(key []byte) bool, offset, limit int) {
	sel := make([]bool, len(h))
	rank := make([]int, len(h))
	cnt := 0
	for i := range h {
		if h[i].bucket != bucket {
			continue
		}
		sel[i] = vAnd(kvLive(h, i, now), in(h[i].key))
		cnt += kb2i(sel[i])
	}
	for i := range h {
		if h[i].bucket != bucket {
			continue
		}
		r := 1
		for j := range h {
			if j != i && h[j].bucket == bucket {
				r += kb2i(vAnd(sel[j], vLessBytes(h[j].key, h[i].key)))
			}
		}
		rank[i] = r
	}
	rest := vIte(cnt > offset, cnt-offset, 0)
	want := vIte(vAnd(limit > 0, limit < rest), limit, rest)
	if err != nil {
		vAssert(id+".error-only-when-window-empty", want == 0)
		return
	}
	vAssert(id+".count", len(got) == want)
	ok := true
	for i := range h {
		if h[i].bucket != bucket {
			continue
		}
		for p := range got {
			e := got[p]
			if e == nil {
				vFail(id + ".nil-entry")
				return
			}
			ok = vAnd(ok, vImplies(vAnd(sel[i], rank[i] == offset+p+1), vAnd(vEqBytes(e.Key, h[i].key), vEqBytes(e.Value, h[i].val))))
		}
	}
	vAssert(id+".elements", ok)
}

// params: mode, rw, nrec, search (0 PrefixScan, 1 PrefixSearchScan with offset 0)
func H_C03_Paging() {
	vSetup()
	defer vCleanup()
	mode := EntryIdxMode(vParam("mode"))
	db, err := Open(vOpts(vDir(), mode, RWMode(vParam("rw")), 4096))
	if err != nil {
		vFail("c03.open")
		return
	}
	n := vParam("nrec")
	var h []kvWrite
	for i := 0; i < n; i++ {
		kinds := []int{0, 4, 3} // live, deleted, expired
		if i == 0 {
			kinds = []int{0}
		}
		w := genKVOp(false, 1, 2, kinds)
		if w.del {
			// a tombstone needs an earlier put to be interesting; it also works as a first write
		}
		err := db.Update(func(tx *Tx) error { return applyKVOp(tx, &w) })
		vAssert("c03.update-ok", err == nil)
		h = append(h, w)
	}
	prefix := vBytes(vChoose(2))
	vReach("c03.scan")
	now := vNow()
	if vParam("search") == 1 {
		const pat = "^[a-m]"
		re := regexp.MustCompile(pat)
		limit := vNondetInt()
		vAssume(vOr(limit == ScanNoLimit, vAnd(limit >= 1, limit <= n+1)))
		_ = db.View(func(tx *Tx) error {
			es, _, err := tx.PrefixSearchScan("a", prefix, pat, 0, limit)
			checkWindow("c03.searchscan", es, err, h, "a", now, func(k []byte) bool {
				if len(k) < len(prefix) {
					return false
				}
				return vAnd(vHasPrefix(k, prefix), re.Match(bytes.TrimPrefix(k, prefix)))
			}, 0, limit)
			return nil
		})
		db.Close()
		return
	}
	offset, limit := vNondetInt(), vNondetInt()
	vAssume(vAnd(offset >= 0, offset <= n+1))
	vAssume(vOr(limit == ScanNoLimit, vAnd(limit >= 1, limit <= n+1)))
	// known finding: a deleted or expired record that still sits in the index under the prefix is
	// counted against offset and limit before it is filtered out
	dead := false
	for i := range h {
		last := true
		for j := i + 1; j < len(h); j++ {
			last = vAnd(last, vNot(vEqBytes(h[j].key, h[i].key)))
		}
		dead = vOr(dead, vAnd(last, vAnd(vNot(kvLive(h, i, now)), vHasPrefix(h[i].key, prefix))))
	}
	vKnown("KF-C03-dead-records-consume-offset-and-limit", vAnd(dead, mode == HintBPTSparseIdxMode))
	_ = db.View(func(tx *Tx) error {
		es, _, err := tx.PrefixScan("a", prefix, offset, limit)
		checkWindow("c03.prefixscan", es, err, h, "a", now, func(k []byte) bool { return vHasPrefix(k, prefix) }, offset, limit)
		return nil
	})
	db.Close()
}

// ---- C04 ----

func c04Name(maxLen int) string { return string(vBytes(vChoose(maxLen + 1))) }

type c04Obs struct {
	getErr  bool
	getVal  []byte
	all     [][]byte
	allErr  bool
}

func c04Observe(db *DB, bucket string, key []byte) c04Obs {
	var o c04Obs
	_ = db.View(func(tx *Tx) error {
		e, err := tx.Get(bucket, key)
		o.getErr = err != nil
		if err == nil && e != nil {
			o.getVal = e.Value
		}
		es, err := tx.GetAll(bucket)
		o.allErr = err != nil
		if err == nil {
			for _, e := range es {
				o.all = append(o.all, e.Key, e.Value)
			}
		}
		return nil
	})
	return o
}

func c04Same(a, b c04Obs) bool {
	if a.getErr != b.getErr || len(a.getVal) != len(b.getVal) || len(a.all) != len(b.all) {
		return false
	}
	ok := vEqBytes(a.getVal, b.getVal)
	for i := range a.all {
		if len(a.all[i]) != len(b.all[i]) {
			return false
		}
		ok = vAnd(ok, vEqBytes(a.all[i], b.all[i]))
	}
	return ok
}

// H_C04_KV params: mode. Two buckets with adversarial names (symbolic bytes in the RAM modes; a fixed
// adversarial set in sparse mode, where names appear in file paths); a write to A must not change any
// read of B, and the same key holds its own value in each bucket.
func H_C04_KV() {
	vSetup()
	defer vCleanup()
	mode := EntryIdxMode(vParam("mode"))
	db, err := Open(vOpts(vDir(), mode, FileIO, 4096))
	if err != nil {
		vFail("c04.open")
		return
	}
	var A, B string
	var ka, kb []byte
	if mode == HintBPTSparseIdxMode {
		names := []string{"a", "ab", "b"}
		keys := [][]byte{[]byte("bc"), []byte("c"), []byte("b")}
		A, B = names[vChoose(3)], names[vChoose(3)]
		ka, kb = keys[vChoose(3)], keys[vChoose(3)]
		if A == B {
			return
		}
	} else {
		A, B = c04Name(2), c04Name(2)
		vAssume(vNot(vEqStr(A, B)))
		ka, kb = vBytes(1+vChoose(2)), vBytes(1+vChoose(2))
	}
	va, vb := vBytes(1), vBytes(1)
	err = db.Update(func(tx *Tx) error { return tx.Put(B, kb, vb, 0) })
	vAssert("c04.put-b", err == nil)
	o0 := c04Observe(db, B, kb)
	o0a := c04Observe(db, B, ka)
	vReach("c04.write-a")
	vKnown("KF-C04-sparse-composite-key", mode == HintBPTSparseIdxMode)
	switch vChoose(3) {
	case 0:
		err = db.Update(func(tx *Tx) error { return tx.Put(A, ka, va, 0) })
	case 1:
		err = db.Update(func(tx *Tx) error { return tx.Put(A, kb, va, 0) }) // same key as in B
		if err == nil {
			g := c04Observe(db, A, kb)
			vAssert("c04.own-value-a", vAnd(!g.getErr, len(g.getVal) == 1 && vEqBytes(g.getVal, va)))
		}
	default:
		err = db.Update(func(tx *Tx) error { return tx.Delete(A, kb) })
	}
	vAssert("c04.write-a-ok", err == nil)
	o1 := c04Observe(db, B, kb)
	vAssert("c04.b-unchanged", c04Same(o0, o1))
	vAssert("c04.b-unchanged-other-key", c04Same(o0a, c04Observe(db, B, ka)))
	vAssert("c04.own-value-b", vAnd(!o1.getErr, len(o1.getVal) == 1 && vEqBytes(o1.getVal, vb)))
	// one transaction that writes both buckets, then a reopen: each bucket still returns its own
	k2 := vBytes(1)
	va2, vb2 := vBytes(1), vBytes(1)
	err = db.Update(func(tx *Tx) error {
		if e := tx.Put(A, k2, va2, 0); e != nil {
			return e
		}
		return tx.Put(B, k2, vb2, 0)
	})
	vAssert("c04.two-bucket-tx-ok", err == nil)
	own := func(id string, d *DB) {
		ga, gb := c04Observe(d, A, k2), c04Observe(d, B, k2)
		vAssert(id+".a", vAnd(!ga.getErr, len(ga.getVal) == 1 && vEqBytes(ga.getVal, va2)))
		vAssert(id+".b", vAnd(!gb.getErr, len(gb.getVal) == 1 && vEqBytes(gb.getVal, vb2)))
	}
	own("c04.two-bucket-tx-own-values", db)
	// everything each bucket shows for the keys used above must survive the reopen unchanged (recovery
	// re-reads the records of both buckets from one log)
	pre := []c04Obs{c04Observe(db, B, kb), c04Observe(db, B, ka), c04Observe(db, A, ka), c04Observe(db, A, kb)}
	vAssert("c04.close", db.Close() == nil)
	db2, err := Open(vOpts(db.opt.Dir, mode, FileIO, 4096))
	vAssert("c04.reopen", err == nil)
	if err != nil {
		return
	}
	own("c04.two-bucket-tx-own-values-after-reopen", db2)
	post := []c04Obs{c04Observe(db2, B, kb), c04Observe(db2, B, ka), c04Observe(db2, A, ka), c04Observe(db2, A, kb)}
	same := true
	for i := range pre {
		same = vAnd(same, c04Same(pre[i], post[i]))
	}
	vAssert("c04.both-buckets-unchanged-by-reopen", same)
	db2.Close()
}

// H_C04_DS: list / set / sorted-set buckets with symbolic names.
func H_C04_DS() {
	vSetup()
	defer vCleanup()
	db, err := Open(vOpts(vDir(), HintKeyValAndRAMIdxMode, FileIO, 4096))
	if err != nil {
		vFail("c04.open")
		return
	}
	A, B := c04Name(2), c04Name(2)
	vAssume(vNot(vEqStr(A, B)))
	k := []byte("x")
	vb, va := vBytes(1), vBytes(1)
	kind := vChoose(3)
	err = db.Update(func(tx *Tx) error {
		switch kind {
		case 0:
			return tx.RPush(B, k, vb)
		case 1:
			return tx.SAdd(B, k, vb)
		}
		return tx.ZAdd(B, k, 1, vb)
	})
	vAssert("c04.ds-put-b", err == nil)
	read := func(bucket string) (bool, [][]byte) {
		var out [][]byte
		bad := false
		_ = db.View(func(tx *Tx) error {
			switch kind {
			case 0:
				l, err := tx.LRange(bucket, k, 0, -1)
				bad, out = err != nil, l
			case 1:
				l, err := tx.SMembers(bucket, k)
				bad, out = err != nil, l
			default:
				ns, err := tx.ZRangeByRank(bucket, 1, -1)
				bad = err != nil
				for _, n := range ns {
					out = append(out, []byte(n.Key()), n.Value)
				}
			}
			return nil
		})
		return bad, out
	}
	bad0, o0 := read(B)
	vReach("c04.ds-write-a")
	err = db.Update(func(tx *Tx) error {
		switch kind {
		case 0:
			if vChoose(2) == 0 {
				return tx.RPush(A, k, va)
			}
			_, e := tx.LPop(A, k)
			return e
		case 1:
			if vChoose(2) == 0 {
				return tx.SAdd(A, k, va)
			}
			return tx.SRem(A, k, vb)
		}
		if vChoose(2) == 0 {
			return tx.ZAdd(A, k, 2, va)
		}
		return tx.ZRem(A, string(k))
	})
	bad1, o1 := read(B)
	same := bad0 == bad1 && len(o0) == len(o1)
	ok := true
	if same {
		for i := range o0 {
			if len(o0[i]) != len(o1[i]) {
				same = false
				break
			}
			ok = vAnd(ok, vEqBytes(o0[i], o1[i]))
		}
	}
	vAssert("c04.ds-b-unchanged", vAnd(same, ok))
	db.Close()
}

// H_C03_TreePaging: paging over a multi-leaf tree. The tree is built by the real Insert from m
// symbolic 2-byte keys sharing a one-byte prefix (assumed ascending, so building forks nowhere); one
// record (any position) is a tombstone or an expired record; offset and limit are symbolic. The result
// of BPTree.PrefixScan must be the live keys ranked (offset, offset+limit].
func H_C03_TreePaging() {
	vSetup()
	defer vCleanup()
	sizes := []int{5, 9, 13}
	m := sizes[vChoose(vParam("nsizes"))]
	t := NewTree()
	p := vBytes(1)
	keys := make([][]byte, m)
	for i := range keys {
		keys[i] = []byte{p[0], vNondetByte()}
		if i > 0 {
			vAssume(keys[i-1][1] < keys[i][1])
		}
	}
	dead := vChoose(m)
	deadKind := vChoose(2)
	pat := vChoose(2)
	for _, i := range treePattern(m, pat) {
		meta := &MetaData{Flag: DataSetFlag}
		if i == dead {
			if deadKind == 0 {
				meta.Flag = DataDeleteFlag
			} else {
				meta.TTL, meta.timestamp = 5, uint64(vNow()-10)
			}
		}
		_ = t.Insert(keys[i], nil, &Hint{key: keys[i], dataPos: uint64(i + 1), meta: meta}, CountFlagEnabled)
	}
	offset, limit := vNondetInt(), vNondetInt()
	vAssume(vAnd(offset >= 0, offset <= m+1))
	vAssume(vOr(limit == ScanNoLimit, vAnd(limit >= 1, limit <= m+1)))
	vReach("c03.tree-scan")
	rs, _, err := t.PrefixScan(p, offset, limit)
	// model: live keys are all but `dead`, in key order (= index order)
	live := m - 1
	rest := vIte(live > offset, live-offset, 0)
	want := vIte(vAnd(limit > 0, limit < rest), limit, rest)
	if err != nil {
		vAssert("c03.tree.error-only-when-window-empty", want == 0)
		return
	}
	vAssert("c03.tree.count", len(rs) == want)
	ok := true
	for j, r := range rs {
		// the j-th result is the (offset+j)-th live key
		for i := 0; i < m; i++ {
			if i == dead {
				continue
			}
			rank := i
			if i > dead {
				rank = i - 1
			}
			ok = vAnd(ok, vImplies(offset+j == rank, int(r.H.dataPos) == i+1))
		}
	}
	vAssert("c03.tree.elements", ok)
}
