//go:build !gosmt

package nutsdb

import (
	"os"
	"time"
)

var vDirs []string

// vSetup (native): wait for the start of a wall-clock second so that a replay (well under a second)
// sees one constant time.Now().Unix(), like the engine's clock model.
func vSetup() {
	_ = vNondetInt64() // the engine's symbolic clock base; the native clock is the real one
	now := time.Now()
	if now.Nanosecond() > 400e6 {
		time.Sleep(time.Duration(1e9-now.Nanosecond())*time.Nanosecond + 20*time.Millisecond)
	}
}

func vNow() int64 { return time.Now().Unix() }

func vAdvance(d int64) {
	if d > 0 {
		time.Sleep(time.Duration(d) * time.Second)
	}
}

func vDir() string {
	d, err := os.MkdirTemp("", "nutsdb-vreplay-")
	if err != nil {
		panic(err)
	}
	vDirs = append(vDirs, d)
	os.RemoveAll(d) // Open creates it
	return d
}

func vCleanup() {
	for _, d := range vDirs {
		os.RemoveAll(d)
	}
	vDirs = nil
}
