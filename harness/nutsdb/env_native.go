//go:build !gosmt

package nutsdb

import (
	"encoding/hex"
	"os"
	fp "path/filepath"
	"strconv"
	"strings"
	"sync"
	"time"
)

var vDirs []string

// vSetup (native): wait for the start of a wall-clock second so that a replay (well under a second)
// sees one constant time.Now().Unix(), like the engine's clock model.
func vSetup() {
	_ = vNondetInt64() // the engine's symbolic clock base; the native clock is the real one
	now := time.Now()
	if now.Nanosecond() > 400e6 {
		time.Sleep(time.Duration(1e9-now.Nanosecond())*time.Nanosecond + 20*time.Millisecond)
	}
}

func vNow() int64 { return time.Now().Unix() }

func vAdvance(d int64) {
	if d > 0 {
		time.Sleep(time.Duration(d) * time.Second)
	}
}

func vDir() string {
	d, err := os.MkdirTemp("", "nutsdb-vreplay-")
	if err != nil {
		panic(err)
	}
	vDirs = append(vDirs, d)
	os.RemoveAll(d) // Open creates it
	return d
}

func vCleanup() {
	for _, d := range vDirs {
		os.RemoveAll(d)
	}
	vDirs = nil
}

// ---- native side of the crash scenarios: the post-crash directory image predicted by the engine
// (bytes evaluated under the solver model) is written to disk and the real Open runs on it ----

func vArm()                  {}
func vDisarm()               {}
func vArmFault()             {}
func vDisarmFault() bool     { return false }
func vPowerLossMode(on bool) {}
func vFewCuts(on bool)       {}
func vPowerFail(dir string) bool { return false }
func vImageSave(dir string)  {}

func vImageLoad(dir string) {
	os.MkdirAll(dir, 0755)
	for _, o := range vPredicted {
		switch {
		case strings.HasPrefix(o.Tag, "imgdir:"):
			os.MkdirAll(dir+strings.TrimPrefix(o.Tag, "imgdir:"), 0755)
		case strings.HasPrefix(o.Tag, "img:"):
			p := dir + strings.TrimPrefix(o.Tag, "img:")
			os.MkdirAll(fp.Dir(p), 0755)
			b, _ := hex.DecodeString(o.Val)
			os.WriteFile(p, b, 0644)
		}
	}
}

func vPredictedInt(tag string) int {
	for _, o := range vPredicted {
		if o.Tag == tag {
			n, _ := strconv.Atoi(o.Val)
			return n
		}
	}
	return -1
}

func vSetMsMode(m int) {}

// vImageObserve echoes the predicted image observations so that the native observation list lines up
// with the engine's.
func vImageObserve(dir string) {
	for _, o := range vPredicted {
		if strings.HasPrefix(o.Tag, "img") {
			vObs = append(vObs, o)
		}
	}
}

func vShare(root interface{})        {}
func vFileAccess(write bool)         {}
func vLockHeld(mu *sync.RWMutex) int { return 0 }
