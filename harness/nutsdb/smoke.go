package nutsdb

// Smoke scenario: drives the real Open / Update / View / Close over the modelled file system.

func vOpts(dir string, mode EntryIdxMode, rw RWMode, seg int64) Options {
	return Options{Dir: dir, EntryIdxMode: mode, RWMode: rw, SegmentSize: seg, NodeNum: 1, SyncEnable: false, StartFileLoadingMode: rw}
}

func H_Smoke() {
	vSetup()
	defer vCleanup()
	dir := vDir()
	mode := EntryIdxMode(vChoose(3))
	rw := RWMode(vChoose(2))
	db, err := Open(vOpts(dir, mode, rw, 256))
	vAssert("smoke.open", err == nil)
	if err != nil {
		return
	}
	k, v := vBytes(1), vBytes(1)
	err = db.Update(func(tx *Tx) error { return tx.Put("b", k, v, 0) })
	vAssert("smoke.put", err == nil)
	var got []byte
	err = db.View(func(tx *Tx) error {
		e, err := tx.Get("b", k)
		if err != nil {
			return err
		}
		got = e.Value
		return nil
	})
	vAssert("smoke.get", vAnd(err == nil, vEqBytes(got, v)))
	vAssert("smoke.close", db.Close() == nil)
	db, err = Open(vOpts(dir, mode, rw, 256))
	vAssert("smoke.reopen", err == nil)
	if err != nil {
		return
	}
	err = db.View(func(tx *Tx) error {
		e, err := tx.Get("b", k)
		if err != nil {
			return err
		}
		got = e.Value
		return nil
	})
	vAssert("smoke.get-after-reopen", vAnd(err == nil, vEqBytes(got, v)))
	vReach("smoke.done")
	db.Close()
}
