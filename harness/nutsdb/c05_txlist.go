package nutsdb

// C05 (through transactions) / C13 — lists through the Tx API against a Redis-style model.
// A seeded list of three symbolic elements, then two transactions of one operation each (so the known
// "pending writes are invisible" limitation is not involved); after each commit, and after a reopen,
// LRange(0,-1) must equal the model. The model is ordinary branching Go: its comparisons repeat the
// ones the real code made on this path, so they add no paths.

func mlNorm(l [][]byte, s, e int) (int, int, bool) {
	n := len(l)
	if s < 0 {
		s += n
		if s < 0 {
			s = 0
		}
	}
	if e < 0 {
		e += n
	}
	if e >= n {
		e = n - 1
	}
	if s > e {
		return 0, 0, false
	}
	return s, e, true
}

// mlApply applies one operation to the model list; ok=false: the call must fail and change nothing.
func mlApply(l [][]byte, o *sOp) (res [][]byte, ret []byte, ok bool) {
	n := len(l)
	switch o.kind {
	case opRPush:
		return append(append([][]byte{}, l...), o.val), nil, true
	case opLPush:
		return append([][]byte{o.val}, l...), nil, true
	case opLPop:
		if n == 0 {
			return l, nil, false
		}
		return l[1:], l[0], true
	case opRPop:
		if n == 0 {
			return l, nil, false
		}
		return l[:n-1], l[n-1], true
	case opLRem:
		c := o.n1
		if c > n || -c > n {
			return l, nil, false
		}
		var out [][]byte
		if c >= 0 {
			removed := 0
			for _, x := range l {
				if (c == 0 || removed < c) && vEqBytes(x, o.val) {
					removed++
					continue
				}
				out = append(out, x)
			}
			return out, nil, true
		}
		removed := 0
		keep := make([]bool, n)
		for i := n - 1; i >= 0; i-- {
			if removed < -c && vEqBytes(l[i], o.val) {
				removed++
				continue
			}
			keep[i] = true
		}
		for i, x := range l {
			if keep[i] {
				out = append(out, x)
			}
		}
		return out, nil, true
	case opLSet:
		if o.n1 < 0 || o.n1 >= n {
			return l, nil, false
		}
		out := append([][]byte{}, l...)
		out[o.n1] = o.val
		return out, nil, true
	case opLTrim:
		s, e, okr := mlNorm(l, o.n1, o.n2)
		if !okr {
			return l, nil, false
		}
		return append([][]byte{}, l[s:e+1]...), nil, true
	}
	return l, nil, true
}

func txListRead(db *DB) ([][]byte, bool) {
	var out [][]byte
	failed := false
	_ = db.View(func(tx *Tx) error {
		l, err := tx.LRange(bucketList, vDSKeys[0], 0, -1)
		if err != nil {
			failed = true
			return nil
		}
		out = l
		return nil
	})
	return out, failed
}

func txListSame(id string, db *DB, model [][]byte) {
	got, failed := txListRead(db)
	if failed {
		// reading an empty or missing list may report an error instead of an empty result
		vAssert(id+".error-only-when-empty", len(model) == 0)
		return
	}
	vAssert(id+".length", len(got) == len(model))
	if len(got) != len(model) {
		return
	}
	ok := true
	for i := range model {
		ok = vAnd(ok, vEqBytes(got[i], model[i]))
	}
	vAssert(id+".elements", ok)
}

// params: nseed, ntx
func H_C05_TxList() {
	vSetup()
	defer vCleanup()
	opt := vOptsFull(vDir(), HintKeyValAndRAMIdxMode, FileIO, FileIO, 4096, false)
	db, err := Open(opt)
	if err != nil {
		vFail("c05tx.open")
		return
	}
	var model [][]byte
	nseed := vParam("nseed")
	seed := make([][]byte, nseed)
	for i := range seed {
		seed[i] = vBytes(1)
	}
	if nseed > 0 {
		_ = db.Update(func(tx *Tx) error { return tx.RPush(bucketList, vDSKeys[0], seed...) })
		model = append(model, seed...)
	}
	txListSame("c05tx.seed", db, model)
	kinds := profiles[1]
	for t := 0; t < vParam("ntx"); t++ {
		o := genOp(kinds)
		vReach("c05tx.op")
		err := db.Update(func(tx *Tx) error {
			_ = applyOp(tx, o)
			return nil
		})
		vAssert("c05tx.update-ok", err == nil)
		next, ret, ok := mlApply(model, o)
		if !ok {
			vAssert("c05tx.invalid-call-errors", o.err != nil)
		} else {
			vAssert("c05tx.valid-call-succeeds", o.err == nil)
			if ret != nil {
				vAssert("c05tx.pop-returns-removed-element", vAnd(o.retOK, len(o.ret) == len(ret) && vEqBytes(o.ret, ret)))
			}
			model = next
		}
		txListSame("c05tx.after-commit", db, model)
	}
	vAssert("c05tx.close", db.Close() == nil)
	db2, err := Open(opt)
	vAssert("c05tx.reopen", err == nil)
	if err != nil {
		return
	}
	txListSame("c05tx.after-reopen", db2, model)
	db2.Close()
}
