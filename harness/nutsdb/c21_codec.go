package nutsdb

import "os"

// C21 — stored records round-trip, and altered bytes are never served as data.
// Entries go through the real Entry.Encode -> DataFile.WriteAt -> DataFile.ReadAt with both RW managers;
// root-index records and bucket metadata through their real Encode / Read functions.
// CRC-32 is the collision-free digest model of DESIGN §3.5: the checks decide which bytes are
// protected and compared.

type c21Fields struct {
	key, val, bucket      []byte
	ts, txid              uint64
	ttl                   uint32
	flag, status, ds      uint16
}

func c21Entry(kl, vl, bl int) (*Entry, c21Fields) {
	f := c21Fields{key: vBytes(kl), val: vBytes(vl), bucket: vBytes(bl),
		ts: vNondetUint64(), txid: vNondetUint64(), ttl: vNondetUint32(),
		flag: vNondetUint16(), status: vNondetUint16(), ds: vNondetUint16()}
	e := &Entry{Key: f.key, Value: f.val, Meta: &MetaData{
		keySize: uint32(kl), valueSize: uint32(vl), bucketSize: uint32(bl), bucket: f.bucket,
		timestamp: f.ts, TTL: f.ttl, Flag: f.flag, status: f.status, ds: f.ds, txID: f.txid}}
	return e, f
}

func c21Same(got *Entry, f c21Fields) bool {
	if got == nil || got.Meta == nil {
		return false
	}
	m := got.Meta
	if int(m.keySize) != len(f.key) || int(m.valueSize) != len(f.val) || int(m.bucketSize) != len(f.bucket) ||
		len(got.Key) != len(f.key) || len(got.Value) != len(f.val) || len(m.bucket) != len(f.bucket) {
		return false
	}
	ok := vAnd(vEqBytes(got.Key, f.key), vAnd(vEqBytes(got.Value, f.val), vEqBytes(m.bucket, f.bucket)))
	ok = vAnd(ok, vAnd(m.timestamp == f.ts, vAnd(m.txID == f.txid, m.TTL == f.ttl)))
	ok = vAnd(ok, vAnd(m.Flag == f.flag, vAnd(m.status == f.status, m.ds == f.ds)))
	return ok
}

func c21Sizes() (int, int, int) {
	m := vParam("maxlen")
	return 1 + vChoose(m), vChoose(m + 1), vChoose(m + 1)
}

// writeRecord stores the encoded entry at off in a fresh segment and returns the data file.
func c21Store(path string, rw RWMode, buf []byte, off int64) *DataFile {
	df, err := NewDataFile(path, 128, rw)
	if err != nil || df == nil {
		vFail("c21.newdatafile")
		return nil
	}
	n, err := df.WriteAt(buf, off)
	vAssert("c21.write", vAnd(err == nil, n == len(buf)))
	return df
}

func H_C21_EntryRoundTrip() {
	vSetup()
	defer vCleanup()
	dir := vDir()
	os.MkdirAll(dir, os.ModePerm)
	kl, vl, bl := c21Sizes()
	e, f := c21Entry(kl, vl, bl)
	rw := RWMode(vChoose(2))
	buf := e.Encode()
	// at the start of the segment, in the middle, and flush with its end (the last byte of the record is
	// the last byte of the file)
	offs := []int64{0, 61, 128 - int64(len(buf))}
	off := offs[vChoose(len(offs))]
	vAssert("roundtrip.size", int64(len(buf)) == e.Size())
	df := c21Store(dir+"/0.dat", rw, buf, off)
	if df == nil {
		return
	}
	vReach("roundtrip.read")
	got, err := df.ReadAt(int(off))
	vAssert("roundtrip.no-error", err == nil)
	vAssert("roundtrip.fields", c21Same(got, f))
	// reopening the segment (the other manager too) reads the same record
	df.rwManager.Close()
	df2, err := NewDataFile(dir+"/0.dat", 128, RWMode(1-int(rw)))
	if err != nil {
		vFail("roundtrip.reopen")
		return
	}
	got2, err := df2.ReadAt(int(off))
	vAssert("roundtrip.other-manager", vAnd(err == nil, c21Same(got2, f)))
	df2.rwManager.Close()
}

func c21Corrupt(path string, pos int64, mask byte, zeroFrom, zeroTo int64) {
	fd, err := os.OpenFile(path, os.O_RDWR, 0644)
	if err != nil {
		vFail("c21.corrupt-open")
		return
	}
	defer fd.Close()
	if mask != 0 {
		b := make([]byte, 1)
		fd.ReadAt(b, pos)
		b[0] ^= mask
		fd.WriteAt(b, pos)
	}
	if zeroTo > zeroFrom {
		fd.WriteAt(make([]byte, zeroTo-zeroFrom), zeroFrom)
	}
}

// every single-bit flip of the stored record
func H_C21_EntryBitFlip() {
	vSetup()
	defer vCleanup()
	dir := vDir()
	os.MkdirAll(dir, os.ModePerm)
	kl, vl, bl := c21Sizes()
	e, f := c21Entry(kl, vl, bl)
	rw := RWMode(vParam("rw"))
	off := int64(0)
	buf := e.Encode()
	path := dir + "/0.dat"
	df := c21Store(path, rw, buf, off)
	if df == nil {
		return
	}
	df.rwManager.Close()
	bit := vChoose(len(buf) * 8)
	c21Corrupt(path, off+int64(bit/8), byte(1)<<uint(bit%8), 0, 0)
	df, err := NewDataFile(path, 128, rw)
	if err != nil {
		vFail("bitflip.reopen")
		return
	}
	vReach("bitflip.read")
	got, err := df.ReadAt(int(off))
	vAssert("bitflip.error-or-absent-or-equal", vOr(err != nil, vOr(got == nil, got != nil && c21Same(got, f))))
	df.rwManager.Close()
}

// every truncation of the stored record (the rest of the preallocated segment reads as zeros)
func H_C21_EntryTruncate() {
	vSetup()
	defer vCleanup()
	dir := vDir()
	os.MkdirAll(dir, os.ModePerm)
	kl, vl, bl := c21Sizes()
	e, f := c21Entry(kl, vl, bl)
	rw := RWMode(vParam("rw"))
	off := int64(vChoose(2) * 61)
	buf := e.Encode()
	path := dir + "/0.dat"
	df := c21Store(path, rw, buf, off)
	if df == nil {
		return
	}
	df.rwManager.Close()
	cut := vChoose(len(buf)) // 0 .. len-1 bytes survive
	c21Corrupt(path, 0, 0, off+int64(cut), off+int64(len(buf)))
	df, err := NewDataFile(path, 128, rw)
	if err != nil {
		vFail("truncate.reopen")
		return
	}
	vReach("truncate.read")
	got, err := df.ReadAt(int(off))
	vAssert("truncate.error-or-absent-or-equal", vOr(err != nil, vOr(got == nil, got != nil && c21Same(got, f))))
	df.rwManager.Close()
}

// ---- sparse root-index records ----

func c21RootSame(got *BPTreeRootIdx, fid, root uint64, start, end []byte) bool {
	if got == nil || len(got.start) != len(start) || len(got.end) != len(end) ||
		int(got.startSize) != len(start) || int(got.endSize) != len(end) {
		return false
	}
	return vAnd(vAnd(got.fID == fid, got.rootOff == root), vAnd(vEqBytes(got.start, start), vEqBytes(got.end, end)))
}

func H_C21_RootIdx() {
	vSetup()
	defer vCleanup()
	dir := vDir()
	os.MkdirAll(dir, os.ModePerm)
	sl, el := vChoose(vParam("maxlen")+1), vChoose(vParam("maxlen")+1)
	start, end := vBytes(sl), vBytes(el)
	fid, root := vNondetUint64(), vNondetUint64()
	bri := &BPTreeRootIdx{fID: fid, rootOff: root, startSize: uint32(sl), endSize: uint32(el), start: start, end: end}
	path := dir + "/1.bptridx"
	n, err := bri.Persistence(path, 0, false)
	vAssert("rootidx.persist", vAnd(err == nil, int64(n) == bri.Size()))
	total := int(bri.Size())
	mode := vChoose(3) // 0 round trip, 1 bit flip, 2 truncation (file ends)
	switch mode {
	case 1:
		bit := vChoose(total * 8)
		c21Corrupt(path, int64(bit/8), byte(1)<<uint(bit%8), 0, 0)
	case 2:
		cut := vChoose(total)
		fd, err := os.OpenFile(path, os.O_RDWR, 0644)
		if err != nil {
			vFail("rootidx.open")
			return
		}
		fd.Truncate(int64(cut))
		fd.Close()
	}
	fd, err := os.OpenFile(path, os.O_RDWR, 0644)
	if err != nil {
		vFail("rootidx.open")
		return
	}
	defer fd.Close()
	vReach("rootidx.read")
	got, err := ReadBPTreeRootIdxAt(fd, 0)
	if mode == 0 {
		// an all-zero record (crc 0, fID 0, rootOff 0, empty bounds) reads as "absent" by design (IsZero)
		vAssert("rootidx.roundtrip", vAnd(err == nil, vOr(c21RootSame(got, fid, root, start, end), got == nil && sl == 0 && el == 0 && vAnd(fid == 0, root == 0))))
		return
	}
	vAssert("rootidx.error-or-absent-or-equal", vOr(err != nil, vOr(got == nil, got != nil && c21RootSame(got, fid, root, start, end))))
}

// ---- bucket metadata ----

func c21MetaSame(got *BucketMeta, start, end []byte) bool {
	if got == nil || len(got.start) != len(start) || len(got.end) != len(end) ||
		int(got.startSize) != len(start) || int(got.endSize) != len(end) {
		return false
	}
	return vAnd(vEqBytes(got.start, start), vEqBytes(got.end, end))
}

func H_C21_BucketMeta() {
	vSetup()
	defer vCleanup()
	dir := vDir()
	os.MkdirAll(dir, os.ModePerm)
	sl, el := 1+vChoose(2), 1+vChoose(2)
	start, end := vBytes(sl), vBytes(el)
	bm := &BucketMeta{startSize: uint32(sl), endSize: uint32(el), start: start, end: end}
	path := dir + "/b.meta"
	fd, err := os.OpenFile(path, os.O_CREATE|os.O_RDWR, 0644)
	if err != nil {
		vFail("meta.create")
		return
	}
	data := bm.Encode()
	fd.WriteAt(data, 0)
	fd.Close()
	total := len(data)
	mode := vChoose(3)
	switch mode {
	case 1:
		bit := vChoose(total * 8)
		c21Corrupt(path, int64(bit/8), byte(1)<<uint(bit%8), 0, 0)
	case 2:
		cut := vChoose(total)
		fd, _ := os.OpenFile(path, os.O_RDWR, 0644)
		fd.Truncate(int64(cut))
		fd.Close()
	}
	vReach("meta.read")
	got, err := ReadBucketMeta(path)
	if mode == 0 {
		vAssert("meta.roundtrip", vAnd(err == nil, c21MetaSame(got, start, end)))
		return
	}
	vAssert("meta.error-or-absent-or-equal", vOr(err != nil, vOr(got == nil, got != nil && c21MetaSame(got, start, end))))
}
