package nutsdb

// C01 T1 — B+ tree single-step lemma. The pre-state is a tree built by the real Insert from m symbolic
// 2-byte keys (assumed strictly ascending, inserted in one of several patterns so that building forks
// nowhere); then ONE Insert with an unconstrained symbolic key runs, and Find / Range / All / PrefixScan
// with symbolic arguments are compared with the declarative filter of the model.

func tb2i(b bool) int { return vIte(b, 1, 0) }

type tcand struct {
	key  []byte
	id   int  // identifies the record (Hint.dataPos)
	live bool // symbolic: the candidate exists in the model
}

func mkHint(key []byte, id int) *Hint {
	return &Hint{key: key, dataPos: uint64(id), meta: &MetaData{Flag: DataSetFlag}}
}

// insertion orders over sorted positions 0..m-1
func treePattern(m, pat int) []int {
	ord := make([]int, 0, m)
	switch pat {
	case 0: // ascending
		for i := 0; i < m; i++ {
			ord = append(ord, i)
		}
	case 1: // descending
		for i := m - 1; i >= 0; i-- {
			ord = append(ord, i)
		}
	case 2: // outside-in
		for i, j := 0, m-1; i <= j; i, j = i+1, j-1 {
			ord = append(ord, i)
			if i != j {
				ord = append(ord, j)
			}
		}
	default: // two interleaved runs: evens then odds
		for i := 0; i < m; i += 2 {
			ord = append(ord, i)
		}
		for i := 1; i < m; i += 2 {
			ord = append(ord, i)
		}
	}
	return ord
}

func mkTree(m, pat int, concrete bool) (*BPTree, []tcand) {
	t := NewTree()
	cs := make([]tcand, m)
	for i := range cs {
		var k []byte
		if concrete {
			// evenly spaced concrete keys with gaps (large shapes)
			v := 256 + i*600
			k = []byte{byte(v >> 8), byte(v)}
		} else {
			k = vBytes(2)
		}
		cs[i] = tcand{key: k, id: i + 1, live: true}
	}
	if !concrete {
		for i := 1; i < m; i++ {
			vAssume(vLessBytes(cs[i-1].key, cs[i].key))
		}
	}
	for _, i := range treePattern(m, pat) {
		_ = t.Insert(cs[i].key, nil, mkHint(cs[i].key, cs[i].id), CountFlagEnabled)
	}
	return t, cs
}

// treeInv asserts the representation invariant and returns the leaf chain (keys, ids).
func treeInv(id string, t *BPTree) ([][]byte, []int) {
	var keys [][]byte
	var ids []int
	if t.root == nil {
		return nil, nil
	}
	ok := true
	// descend to the leftmost leaf
	n := t.root
	depth := 0
	for !n.isLeaf && depth < 8 {
		c, isNode := n.pointers[0].(*Node)
		if !isNode || c == nil {
			vFail(id + ".inv.child-pointer")
			return nil, nil
		}
		ok = ok && c.parent == n
		n = c
		depth++
	}
	guard := 0
	for n != nil && guard < 64 {
		guard++
		ok = ok && n.isLeaf && n.KeysNum >= 1 && n.KeysNum <= order-1
		for i := 0; i < n.KeysNum; i++ {
			r, isRec := n.pointers[i].(*Record)
			if !isRec || r == nil || r.H == nil {
				vFail(id + ".inv.leaf-pointer")
				return nil, nil
			}
			keys = append(keys, n.Keys[i])
			ids = append(ids, int(r.H.dataPos))
		}
		nx, _ := n.pointers[order-1].(*Node)
		n = nx
	}
	vAssert(id+".inv.structure", ok)
	sorted := true
	for i := 1; i < len(keys); i++ {
		sorted = vAnd(sorted, vLessBytes(keys[i-1], keys[i]))
	}
	vAssert(id+".inv.leaf-chain-sorted", sorted)
	// separators bound their subtrees: checked through Find of every stored key
	return keys, ids
}

func recsOf(rs Records) ([][]byte, []int) {
	var ks [][]byte
	var ids []int
	for _, r := range rs {
		ks = append(ks, r.H.key)
		ids = append(ids, int(r.H.dataPos))
	}
	return ks, ids
}

// sameSeq asserts got == want elementwise (keys and record ids). Keys that are the same byte terms
// fold to true without a query.
func sameSeq(id string, gotK [][]byte, gotID []int, want []tcand) {
	vAssert(id+".count", len(gotK) == len(want))
	if len(gotK) != len(want) {
		return
	}
	ok := true
	for i := range want {
		ok = vAnd(ok, vAnd(vEqBytes(gotK[i], want[i].key), gotID[i] == want[i].id))
	}
	vAssert(id+".elements", ok)
}

// The model is a sorted slice maintained with ordinary branching code: on each path of the real
// insert the position of the new key is already decided by the path condition, so these branches are
// implied (one small query each) and add no paths.
//
// phase 0: one Insert with an unconstrained symbolic key, then the invariant, the leaf chain and All().
// phase 1: Find / Range / PrefixScan with symbolic arguments on the tree as built (no extra insert), so
//          the cost is quadratic, not cubic, in the number of keys.
func treeStep(m, pat int, concrete bool, phase int) {
	t, cs := mkTree(m, pat, concrete)
	exp := cs
	if phase == 0 {
		k := vBytes(2)
		newID := 1000
		_ = t.Insert(k, nil, mkHint(k, newID), CountFlagEnabled)
		pos := 0
		for pos < len(cs) && vLessBytes(cs[pos].key, k) {
			pos++
		}
		exp = nil
		exp = append(exp, cs[:pos]...)
		if pos < len(cs) && vEqBytes(cs[pos].key, k) {
			exp = append(exp, tcand{key: cs[pos].key, id: newID, live: true})
			exp = append(exp, cs[pos+1:]...)
		} else {
			exp = append(exp, tcand{key: k, id: newID, live: true})
			exp = append(exp, cs[pos:]...)
		}
	}
	vReach("tree.built")
	keys, ids := treeInv("tree", t)
	sameSeq("tree.chain", keys, ids, exp)

	filter := func(in func(c tcand) bool) []tcand {
		var out []tcand
		for _, c := range exp {
			if in(c) {
				out = append(out, c)
			}
		}
		return out
	}
	if phase == 0 { // All
		rs, err := t.All()
		gk, gi := recsOf(rs)
		if err != nil {
			gk, gi = nil, nil
		}
		sameSeq("all", gk, gi, exp)
		return
	}
	switch vChoose(3) {
	case 0: // Find
		q := vBytes(2)
		r, err := t.Find(q)
		hit := filter(func(c tcand) bool { return vEqBytes(c.key, q) })
		if err != nil {
			vAssert("find.error-iff-absent", len(hit) == 0)
		} else {
			vAssert("find.found-iff-present", len(hit) == 1)
			if len(hit) == 1 {
				vAssert("find.record", vAnd(r != nil, r != nil && vAnd(int(r.H.dataPos) == hit[0].id, vEqBytes(r.H.key, q))))
			}
		}
		return
	case 1: // Range
		s := vBytes(2)
		var e []byte
		if concrete {
			// large shapes: the end bound is the start itself or the maximum key
			if vChoose(2) == 0 {
				e = s
			} else {
				e = []byte{0xff, 0xff}
			}
		} else {
			e = vBytes(2)
		}
		rs, err := t.Range(s, e)
		if vLessBytes(e, s) {
			vAssert("range.start-after-end-errors", err != nil)
			return
		}
		gk, gi := recsOf(rs)
		if err != nil {
			gk, gi = nil, nil
		}
		sameSeq("range", gk, gi, filter(func(c tcand) bool { return vLeqBytes(s, c.key) && vLeqBytes(c.key, e) }))
	default: // PrefixScan without offset/limit; prefix of 0..2 bytes
		pl := vChoose(3)
		p := vBytes(pl)
		rs, _, err := t.PrefixScan(p, 0, ScanNoLimit)
		gk, gi := recsOf(rs)
		if err != nil {
			gk, gi = nil, nil
		}
		sameSeq("prefixscan", gk, gi, filter(func(c tcand) bool { return vHasPrefix(c.key, p) }))
	}
}

func H_C01_TreeStep() {
	sizes := []int{0, 1, 3, 7, 8, 9, 13}
	m := sizes[vChoose(len(sizes))]
	treeStep(m, vChoose(4), false, vParam("phase"))
}

// larger shapes (root with several leaves, full root, three levels): pre-state keys are concrete and
// evenly spaced; the final insert and the queries stay fully symbolic.
func H_C01_TreeStepLarge() {
	sizes := []int{14, 20, 27, 35, 36, 44, 70}
	m := sizes[vChoose(len(sizes))]
	treeStep(m, vChoose(4), true, vParam("phase"))
}

// thorough: symbolic pre-state keys up to 20
func H_C01_TreeStep20() {
	sizes := []int{14, 15, 20}
	m := sizes[vChoose(len(sizes))]
	treeStep(m, vChoose(4), false, vParam("phase"))
}
