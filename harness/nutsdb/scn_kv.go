package nutsdb

import (
	"bytes"
	"regexp"
)

// Shared pieces of the key/value scenarios: symbolic histories of Put / PutWithTimestamp / Delete
// through the real Update, and the OrderedMapTTL oracle (DESIGN §4).

type kvWrite struct {
	bucket string
	key    []byte
	val    []byte
	ttl    uint32
	ts     uint64
	del    bool
	ok     bool // symbolic or concrete: the write was accepted and committed
}

var vBuckets = []string{"a", "b"}

func kb2i(b bool) int { return vIte(b, 1, 0) }

// genKVOp draws one write with a symbolic key. The TTL/timestamp combinations are concrete shapes on
// both sides of expiry (the arithmetic itself is decided for all values by H_C01_Expiry):
//   kind 0 Put, persistent          kind 1 Put, ttl=1 (live when written, expired after vAdvance(1))
//   kind 2 Put, ttl=5 (live)        kind 3 PutWithTimestamp(now-d, ttl=5), d in [5,15] (expired, incl. the boundary second)
//   kind 4 Delete                   kind 5 PutWithTimestamp(now-3, ttl=5) (live)
// kinds lists the shapes this write may take. Only the write with anyBucket set may go to the second
// bucket (bucket isolation itself is C04).
func genKVOp(anyBucket bool, vlen int, maxKey int, kinds []int) kvWrite {
	w := kvWrite{ok: true}
	w.bucket = vBuckets[0]
	if anyBucket {
		w.bucket = vBuckets[vChoose(2)]
	}
	w.key = vBytes(1 + vChoose(maxKey))
	switch kinds[vChoose(len(kinds))] {
	case 0:
		w.val, w.ttl = vBytes(vlen), 0
	case 1:
		w.val, w.ttl = vBytes(vlen), 1
	case 2:
		w.val, w.ttl = vBytes(vlen), 5
	case 3:
		// expired since d-5 seconds, d symbolic in [5,15]: includes "expires exactly now" (d == 5)
		d := vNondetInt64()
		vAssume(vAnd(d >= 5, d <= 15))
		w.val, w.ttl, w.ts = vBytes(vlen), 5, uint64(vNow()-d)
	case 5:
		w.val, w.ttl, w.ts = vBytes(vlen), 5, uint64(vNow()-3)
	default:
		w.del = true
	}
	return w
}

func applyKVOp(tx *Tx, w *kvWrite) error {
	if w.del {
		return tx.Delete(w.bucket, w.key)
	}
	if w.ts == 0 {
		w.ts = uint64(vNow())
		return tx.Put(w.bucket, w.key, w.val, w.ttl)
	}
	return tx.PutWithTimestamp(w.bucket, w.key, w.val, w.ttl, w.ts)
}

// live: write i is the last write of its (bucket,key), is a put, and has not expired at 'now'.
func kvLive(h []kvWrite, i int, now int64) bool {
	w := h[i]
	last := w.ok
	for j := i + 1; j < len(h); j++ {
		if h[j].bucket == w.bucket {
			last = vAnd(last, vNot(vAnd(h[j].ok, vEqBytes(h[j].key, w.key))))
		}
	}
	notExpired := vOr(w.ttl == 0, uint64(now) < w.ts+uint64(w.ttl))
	return vAnd(last, vAnd(!w.del, notExpired))
}

// checkEntries: got must be exactly the selected live writes of the bucket, ascending by key, with the
// bytes last written. An error / empty result is allowed exactly when nothing is selected.
func checkEntries(id string, got Entries, err error, h []kvWrite, bucket string, now int64, in func(key []byte) bool) {
	sel := make([]bool, len(h))
	cnt := 0
	for i := range h {
		if h[i].bucket != bucket {
			sel[i] = false
			continue
		}
		sel[i] = vAnd(kvLive(h, i, now), in(h[i].key))
		cnt += kb2i(sel[i])
	}
	if err != nil {
		vAssert(id+".error-only-when-empty", cnt == 0)
		return
	}
	vAssert(id+".count", len(got) == cnt)
	ok := true
	for i := range h {
		if h[i].bucket != bucket {
			continue
		}
		r := 1
		for j := range h {
			if j != i && h[j].bucket == bucket {
				r += kb2i(vAnd(sel[j], vLessBytes(h[j].key, h[i].key)))
			}
		}
		for p := range got {
			e := got[p]
			if e == nil {
				vFail(id + ".nil-entry")
				return
			}
			ok = vAnd(ok, vImplies(vAnd(sel[i], r == p+1), vAnd(vEqBytes(e.Key, h[i].key), vEqBytes(e.Value, h[i].val))))
		}
	}
	vAssert(id+".elements", ok)
}

// kvRead performs one read with symbolic arguments against the model. kind is drawn by the caller.
func kvRead(id string, db *DB, h []kvWrite, kind int, bucket string, q1, q2 []byte) {
	now := vNow()
	_ = db.View(func(tx *Tx) error {
		switch kind {
		case 0: // Get
			e, err := tx.Get(bucket, q1)
			found := false
			okv := true
			for i := range h {
				if h[i].bucket != bucket {
					continue
				}
				hit := vAnd(kvLive(h, i, now), vEqBytes(h[i].key, q1))
				found = vOr(found, hit)
				if e != nil {
					okv = vAnd(okv, vImplies(hit, vEqBytes(e.Value, h[i].val)))
				}
			}
			if err != nil {
				vAssert(id+".get.error-iff-dead", vNot(found))
			} else {
				vAssert(id+".get.found-iff-live", vAnd(found, e != nil))
				vAssert(id+".get.value", okv)
			}
		case 1: // GetAll
			es, err := tx.GetAll(bucket)
			checkEntries(id+".getall", es, err, h, bucket, now, func(k []byte) bool { return true })
		case 2: // RangeScan
			es, err := tx.RangeScan(bucket, q1, q2)
			if vLessBytes(q2, q1) {
				vAssert(id+".rangescan.start-after-end", vOr(err != nil, len(es) == 0))
				return nil
			}
			checkEntries(id+".rangescan", es, err, h, bucket, now, func(k []byte) bool { return vAnd(vLeqBytes(q1, k), vLeqBytes(k, q2)) })
		case 3: // PrefixScan without offset or limit
			es, _, err := tx.PrefixScan(bucket, q1, 0, ScanNoLimit)
			checkEntries(id+".prefixscan", es, err, h, bucket, now, func(k []byte) bool { return vHasPrefix(k, q1) })
		default: // PrefixSearchScan without offset or limit
			const pat = "^[a-m]"
			re := regexp.MustCompile(pat)
			es, _, err := tx.PrefixSearchScan(bucket, q1, pat, 0, ScanNoLimit)
			checkEntries(id+".prefixsearchscan", es, err, h, bucket, now, func(k []byte) bool {
				if len(k) < len(q1) {
					return false
				}
				return vAnd(vHasPrefix(k, q1), re.Match(bytes.TrimPrefix(k, q1)))
			})
		}
		return nil
	})
}

// H_C01_KV: a symbolic history of write transactions, then one read of each kind selected by choice.
// params: mode (EntryIdxMode), rw (RWMode), nops (number of writes), maxkey, nseg (segment sizes drawn from),
// allkinds (0: alternating TTL shapes, 1: all shapes, 2: Put/Delete only), single (1: one write per transaction)
func H_C01_KV() {
	vSetup()
	defer vCleanup()
	mode, rw := EntryIdxMode(vParam("mode")), RWMode(vParam("rw"))
	nops := vParam("nops")
	segs := []int64{50, 4096, 100}
	seg := segs[vChoose(vParam("nseg"))]
	dir := vDir()
	db, err := Open(vOpts(dir, mode, rw, seg))
	vAssert("kv.open", err == nil)
	if err != nil {
		return
	}
	var h []kvWrite
	// transactions of one or two operations
	for len(h) < nops {
		n := 1
		if len(h)+2 <= nops && vParam("single") == 0 {
			n = 1 + vChoose(2)
		}
		ws := make([]kvWrite, n)
		for i := range ws {
			idx := len(h) + i
			kinds := []int{0, 2, 4, 1, 3, 5}
			if vParam("allkinds") == 2 {
				kinds = []int{0, 4} // persistent Put and Delete only
			} else if vParam("allkinds") == 0 {
				if idx%2 == 0 {
					kinds = []int{0, 1, 3}
				} else {
					kinds = []int{5, 2, 4}
				}
			}
			ws[i] = genKVOp(idx == nops-1 && nops > 1 && mode != HintBPTSparseIdxMode, idx%2, vParam("maxkey"), kinds)
		}
		err := db.Update(func(tx *Tx) error {
			for i := range ws {
				if err := applyKVOp(tx, &ws[i]); err != nil {
					return err
				}
			}
			return nil
		})
		vAssert("kv.update-ok", err == nil)
		h = append(h, ws...)
	}
	vAdvance(1)
	vReach("kv.history-done")
	kind := vChoose(5)
	bucket := vBuckets[0]
	q1 := vBytes(1 + vChoose(vParam("maxkey")))
	if kind >= 3 {
		q1 = q1[:vChoose(len(q1)+1)]
	}
	q2 := vBytes(1)
	kvRead("kv", db, h, kind, bucket, q1, q2)
	vAssert("kv.close", db.Close() == nil)
}

// H_C01_Expiry: the TTL arithmetic for all values: one record whose TTL, timestamp and the clock
// at the read are symbolic; Get and GetAll must agree with "ttl == 0 or now < ts + ttl".
func H_C01_Expiry() {
	vSetup()
	defer vCleanup()
	mode := EntryIdxMode(vChoose(2))
	db, err := Open(vOpts(vDir(), mode, FileIO, 4096))
	if err != nil {
		vFail("expiry.open")
		return
	}
	w := kvWrite{ok: true, bucket: "a", key: vBytes(1), val: vBytes(1)}
	w.ttl = vNondetUint32()
	if vChoose(2) == 1 {
		d := vNondetInt64()
		vAssume(vAnd(d > -(1<<33), d < 1<<33))
		w.ts = uint64(vNow() + d)
		vAssume(w.ts != 0)
	}
	err = db.Update(func(tx *Tx) error { return applyKVOp(tx, &w) })
	vAssert("expiry.update-ok", err == nil)
	adv := vNondetInt64()
	vAssume(vAnd(adv >= 0, adv <= 2))
	vAdvance(adv)
	vReach("expiry.read")
	h := []kvWrite{w}
	kvRead("expiry", db, h, vChoose(2), "a", w.key, nil)
	db.Close()
}
