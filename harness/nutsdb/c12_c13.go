package nutsdb

import "errors"

// C12 — failed, rolled-back and read-only transactions have no effect (differential: the full
// observation before the transaction equals the one after it, in process and after reopen).
// C13 — a multi-operation write transaction is explained by running its operations one after another
// (differential against a twin database where every operation commits on its own).

var errUser = errors.New("user error")

func openFresh(mode EntryIdxMode, rw RWMode, seg int64) (*DB, Options) {
	opt := vOptsFull(vDir(), mode, rw, rw, seg, false)
	db, err := Open(opt)
	if err != nil {
		vFail("open-fresh")
		return nil, opt
	}
	return db, opt
}

// H_C12_NoEffect params: mode, profile, variant
//   variant 0: fn returns an error after its operations
//   variant 1: explicit Begin / operations / Rollback
//   variant 2: Commit fails on an entry larger than the segment at a chosen position
//   variant 3: read-only transaction calls the mutators
//   variant 4: calls on a finished transaction (after Commit and after Rollback)
func H_C12_NoEffect() {
	vSetup()
	defer vCleanup()
	mode := EntryIdxMode(vParam("mode"))
	seg := int64(64)
	db, opt := openFresh(mode, FileIO, seg)
	if db == nil {
		return
	}
	profile := vParam("profile")
	base := genTxs(profile, 1, vParam("baseops"))
	for _, e := range runTxs(db, base) {
		vAssert("c12.base-ok", e == nil)
	}
	ops := genTxs(profile, 1, vParam("maxops"))[0]
	keys := kvKeysOf([][]*sOp{base[0], ops})
	structs := mode == HintKeyValAndRAMIdxMode
	o0 := observe(db, keys, structs)
	vReach("c12.before")
	switch vParam("variant") {
	case 0:
		err := db.Update(func(tx *Tx) error {
			for _, o := range ops {
				_ = applyOp(tx, o)
			}
			return errUser
		})
		vAssert("c12.fn-error-returned", err != nil)
	case 1:
		tx, err := db.Begin(true)
		if err != nil {
			vFail("c12.begin")
			return
		}
		for _, o := range ops {
			_ = applyOp(tx, o)
		}
		vAssert("c12.rollback-ok", tx.Rollback() == nil)
	case 2:
		pos := vChoose(len(ops) + 1)
		// an entry larger than the segment: by one byte (header + bucket + key + value = seg + 1) or by far
		bigLens := []int{int(seg) - DataEntryHeaderSize - len(vKVBuckets[0]) - len("big") + 1, int(seg)}
		big := make([]byte, bigLens[vChoose(2)])
		err := db.Update(func(tx *Tx) error {
			for i, o := range ops {
				if i == pos {
					if e := tx.Put(vKVBuckets[0], []byte("big"), big, 0); e != nil {
						return e
					}
				}
				_ = applyOp(tx, o)
			}
			if pos == len(ops) {
				return tx.Put(vKVBuckets[0], []byte("big"), big, 0)
			}
			return nil
		})
		vAssert("c12.oversize-commit-fails", err != nil)
	case 5:
		// an injected write error (possibly after a partial write) at any file-mutation point of the commit
		vArmFault()
		err := db.Update(func(tx *Tx) error {
			for _, o := range ops {
				_ = applyOp(tx, o)
			}
			return nil
		})
		if !vDisarmFault() {
			return // no fault point was chosen on this path
		}
		vKnown("KF-C12-io-error-mid-commit", true)
		vAssert("c12.faulted-commit-fails", err != nil)
	case 3:
		err := db.View(func(tx *Tx) error {
			for _, o := range ops {
				// the property demands "no effect"; most mutators also return ErrTxNotWritable, but a call
				// that is a no-op anyway (SMove of a non-member, a pop of an empty structure) need not
				_ = applyOp(tx, o)
			}
			return nil
		})
		vAssert("c12.view-ok", err == nil)
	case 4:
		tx, err := db.Begin(true)
		if err != nil {
			vFail("c12.begin")
			return
		}
		if vChoose(2) == 0 {
			vAssert("c12.empty-commit-ok", tx.Commit() == nil)
		} else {
			vAssert("c12.rollback-ok", tx.Rollback() == nil)
		}
		for _, o := range ops {
			vAssert("c12.finished-tx-call-errors", applyOp(tx, o) != nil)
		}
		vAssert("c12.second-commit-errors", tx.Commit() != nil)
		vAssert("c12.second-rollback-errors", tx.Rollback() != nil)
	}
	o1 := observe(db, keys, structs)
	obsDescribe("before", o0)
	obsDescribe("after", o1)
	vAssert("c12.no-effect-in-process", obsSame(o0, o1))
	vAssert("c12.close", db.Close() == nil)
	db2, err := Open(opt)
	vAssert("c12.reopen-ok", err == nil)
	if err != nil {
		return
	}
	o2 := observe(db2, keys, structs)
	vAssert("c12.no-effect-after-reopen", obsSame(o0, o2))
	db2.Close()
}

// H_C13_Serial params: profile
func H_C13_Serial() {
	vSetup()
	defer vCleanup()
	dbA, _ := openFresh(HintKeyValAndRAMIdxMode, FileIO, 4096)
	dbB, _ := openFresh(HintKeyValAndRAMIdxMode, FileIO, 4096)
	if dbA == nil || dbB == nil {
		return
	}
	profile := vParam("profile")
	base := genTxs(profile, 1, vParam("baseops"))
	runTxs(dbA, base)
	runTxs(dbB, base)
	n := vParam("nops")
	kinds := profiles[profile]
	ops := make([]*sOp, n)
	for i := range ops {
		ops[i] = genOp(kinds)
	}
	vReach("c13.start")
	// Known finding (by design in this version): reads and pops inside a write transaction see only the
	// committed state, not the transaction's own pending writes; SMove mutates immediately.
	region := dependsOnPending(ops)
	vKnown("KF-C13-pending-writes-invisible", region)
	vKnown("KF-C06-pending-writes-invisible", region)
	// A: all operations in one transaction
	type res struct {
		errNil bool
		ret    []byte
		retOK  bool
	}
	ra := make([]res, n)
	errA := dbA.Update(func(tx *Tx) error {
		for i, o := range ops {
			_ = applyOp(tx, o)
			ra[i] = res{o.err == nil, o.ret, o.retOK}
		}
		return nil
	})
	vAssert("c13.update-ok", errA == nil)
	// B: each operation in its own transaction (the sequential explanation)
	same := true
	for i, o := range ops {
		_ = dbB.Update(func(tx *Tx) error {
			_ = applyOp(tx, o)
			return nil
		})
		if ra[i].errNil != (o.err == nil) || ra[i].retOK != o.retOK || len(ra[i].ret) != len(o.ret) {
			vObserveInt("c13.mismatch-at", i)
			same = false
		} else if o.retOK {
			same = vAnd(same, vEqBytes(ra[i].ret, o.ret))
		}
	}
	vAssert("c13.returns-match-sequential", same)
	keys := kvKeysOf([][]*sOp{base[0], ops})
	oa, ob := observe(dbA, keys, true), observe(dbB, keys, true)
	obsDescribe("one-tx", oa)
	obsDescribe("sequential", ob)
	vAssert("c13.state-matches-sequential", obsSame(oa, ob))
	dbA.Close()
	dbB.Close()
}

// structureOf maps an operation to the structure it touches.
func structureOf(kind int) int {
	switch kind {
	case opPut, opDelete, opPutTTL:
		return 0
	case opRPush, opLPush, opLPop, opRPop, opLRem, opLSet, opLTrim:
		return 1
	case opSAdd, opSRem, opSPop, opSMove:
		return 2
	}
	return 3
}

// stateDependent: the call's result or validity is computed from the structure's current contents.
func stateDependent(kind int) bool {
	switch kind {
	case opLPop, opRPop, opLRem, opLSet, opLTrim, opSPop, opSMove, opZPopMax, opZPopMin, opZRem, opZRemRange:
		return true
	}
	return false
}

// dependsOnPending: some operation reads (for its result or its validity) a part of a structure that an
// earlier operation of the same transaction has written. The read sets follow what the code looks at:
// list operations and pops look at the whole list / set / sorted set of their key; SMove looks only at
// the membership of its item in the source set; plain adds and removes read nothing.
func dependsOnPending(ops []*sOp) bool {
	dep := false
	for j := 1; j < len(ops); j++ {
		for i := 0; i < j; i++ {
			a, b := ops[i], ops[j]
			if structureOf(a.kind) != structureOf(b.kind) || !stateDependent(b.kind) {
				continue
			}
			if b.kind == opSMove {
				switch a.kind {
				case opSAdd:
					// an earlier SAdd may create the source or destination key, whose existence SMove checks
					if string(a.dsKey) == string(b.dsKey) || string(a.dsKey) == string(b.dsKey2) {
						dep = true
					}
				case opSRem:
					if string(a.dsKey) == string(b.dsKey) {
						dep = vOr(dep, vEqBytes(a.val, b.val))
					}
				case opSMove:
					dep = vOr(dep, vEqBytes(a.val, b.val))
				case opSPop:
					if string(a.dsKey) == string(b.dsKey) {
						dep = true
					}
				}
				continue
			}
			if b.kind == opSPop && string(a.dsKey) != string(b.dsKey) && (a.kind != opSMove || string(a.dsKey2) != string(b.dsKey)) {
				continue
			}
			dep = true
		}
	}
	return dep
}
