package nutsdb

// C15 — Merge leaves every read unchanged (immediately and after reopen) and later writes stay durable.
// C16 — a crash at any file-mutation point inside Merge loses or changes nothing.
// Differential: observation before Merge vs after; a twin database that never merges receives the same
// history and the same later writes.

// params: mode (0/1), rw, profile, ntx, maxops, nseg, crash (0/1), seed, simplemore, conc, adv (0/1/2),
// sync, power (crash variant under the power-loss model of C11)
func H_C15_Merge() {
	vSetup()
	defer vCleanup()
	// Merge legitimately forgets emptied structures (an emptied set reads "empty" before and "no such
	// key" after merge + reopen): empty and error are one outcome here (§4.1)
	vObsStrict = false
	defer func() { vObsStrict = true }()
	mode, rw := EntryIdxMode(vParam("mode")), RWMode(vParam("rw"))
	segs := []int64{60, 100}
	seg := segs[vChoose(vParam("nseg"))]
	crash := vParam("crash") == 1
	dir := vDir()
	syncOn, power := vParam("sync") == 1, vParam("power") == 1
	opt := vOptsFull(dir, mode, rw, rw, seg, syncOn)
	structs := mode == HintKeyValAndRAMIdxMode
	if vParam("adv") == 2 {
		vTTL = 3 // TTL records are still live when the merge runs and expire afterwards
	}
	profile := vParam("profile")
	vConcreteArgs, vArgCounter = vParam("conc") == 1, 0
	txs := genTxs(profile, vParam("ntx"), vParam("maxops"))
	// the write after Merge: any operation of the profile, or (param simplemore=1) its first kind only
	var more [][]*sOp
	if vParam("crash") == 1 {
		// the crash variant ends at the reopen; no later write is drawn
	} else if vParam("simplemore") == 1 {
		more = [][]*sOp{{genOp(profiles[profile][:1])}}
	} else {
		more = genTxs(profile, 1, 1)
	}
	keys := append(kvKeysOf(txs), kvKeysOf(more)...)
	var seedTxs [][]*sOp
	if vParam("seed") == 1 {
		var sk [][]byte
		seedTxs, sk = genSeed(profile)
		keys = append(sk, keys...)
	}
	if crash && !vEngine() {
		// native replay of a crash image: the expected state comes from a native twin
		optT := vOptsFull(vDir(), mode, rw, rw, seg, syncOn)
		dbT, err := Open(optT)
		if err != nil {
			vFail("c16.open-twin")
			return
		}
		runTxs(dbT, seedTxs)
		runTxs(dbT, txs)
		if vParam("adv") >= 1 {
			vAdvance(2)
		}
		o0 := observe(dbT, keys, structs)
		dbT.Close()
		if vPredictedInt("crashed") != 1 {
			vObserveInt("crashed", 0)
			return
		}
		vImageLoad(dir)
		vImageObserve(dir)
		vObserveInt("crashed", 1)
		db2, err := Open(opt)
		vAssert("c16.open-after-crash", err == nil)
		if err != nil {
			return
		}
		o := observe(db2, keys, structs)
		vAssert("c16.same-after-crash-in-merge", obsSame(o0, o))
		db2.Close()
		return
	}
	if vEngine() {
		vPowerLossMode(power)
		vFewCuts(power) // every-byte tearing is exercised by the process-crash configurations
	}
	db, err := Open(opt)
	if err != nil {
		vFail("c15.open")
		return
	}
	runTxs(db, seedTxs)
	runTxs(db, txs)
	// twin without merge: receives the same history on the same timeline
	var dbB *DB
	if !crash {
		var err error
		dbB, err = Open(vOptsFull(vDir(), mode, rw, rw, seg, syncOn))
		if err != nil {
			vFail("c15.open-twin")
			return
		}
		runTxs(dbB, seedTxs)
		runTxs(dbB, txs)
	}
	if vParam("adv") >= 1 {
		// adv=1: TTL=1 records expire before the merge (superseded-by-expired versions must stay dead);
		// adv=2: TTL=3 records are live at the merge and must still expire on their original deadline
		vAdvance(2)
	}
	o0 := observe(db, keys, structs)
	vReach("c15.before-merge")
	// known finding: Merge re-applies the pushes of a non-empty list (see known_findings.json)
	listNonEmpty := false
	for _, it := range o0 {
		if len(it.tag) > 7 && it.tag[:7] == "lrange:" && len(it.seq) > 0 {
			listNonEmpty = true
		}
	}
	vKnown("KF-C15-list-merge-duplicates", listNonEmpty)
	vKnown("KF-C16-list-merge-duplicates", listNonEmpty)
	if crash {
		vArm()
		alive := vTry(func() { _ = db.Merge() })
		vDisarm()
		if alive && !power {
			vObserveInt("crashed", 0)
			return
		}
		if power {
			// the power fails at the crash point, or after Merge returned: every file keeps its content or
			// reverts to its last sync; what Merge rewrote must be durable before it removes the source
			// known finding: Merge unlinks the segments one after another without making the removals
			// durable in order, so a later removal can survive a power failure that undoes an earlier one
			vKnown("KF-C11-merge-unlink-order", vPowerFail(dir))
		}
		vPowerLossMode(false)
		vFewCuts(false)
		vImageSave(dir)
		vObserveInt("crashed", 1)
		db2, err := Open(opt)
		vAssert("c16.open-after-crash", err == nil)
		if err != nil {
			return
		}
		o := observe(db2, keys, structs)
		vAssert("c16.same-after-crash-in-merge", obsSame(o0, o))
		db2.Close()
		return
	}
	merr := db.Merge()
	vObserveBool("merge-ok", merr == nil)
	o1 := observe(db, keys, structs)
	obsDescribe("before", o0)
	obsDescribe("after", o1)
	vAssert("c15.same-after-merge", obsSame(o0, o1))
	if vChoose(2) == 1 {
		_ = db.Merge() // repeated merge
		vAssert("c15.same-after-second-merge", obsSame(o0, observe(db, keys, structs)))
	}
	runTxs(db, more)
	runTxs(dbB, more)
	if vParam("adv") == 2 {
		vAdvance(2) // past the original deadline of the TTL=3 records
	}
	oB := observe(dbB, keys, structs)
	oA := observe(db, keys, structs)
	obsDescribe("merged+more", oA)
	obsDescribe("twin+more", oB)
	vAssert("c15.later-writes-in-process", obsSame(oA, oB))
	vAssert("c15.close", db.Close() == nil)
	db2, err := Open(opt)
	vAssert("c15.reopen-after-merge", err == nil)
	if err != nil {
		return
	}
	vAssert("c15.later-writes-durable", obsSame(observe(db2, keys, structs), oB))
	db2.Close()
	dbB.Close()
}
