package nutsdb

// C14 / C17 / C18 — concurrency by lock discipline (DESIGN §6). nutsdb's only synchronisation is
// DB.mu. Each API operation runs once, symbolically, on a populated database while the engine checks
// every load and store of shared state (the DB object graph, package-level variables, files) against
// the lock held at that instant: writes need the write lock, reads a read or write lock, and nothing
// may write a package-level variable under a per-database lock. If every operation obeys this, any two
// operations on any goroutines are mutually excluded wherever they conflict, which gives race freedom
// and makes every transaction an atomic section of one RWMutex (strict serialisability, snapshot
// reads). Lock balance and self-deadlock are checked on every path, error paths included.
// Schedules are NOT enumerated.

func c14Open(mode EntryIdxMode, seg int64) *DB {
	db, err := Open(vOptsFull(vDir(), mode, RWMode(vParam("rw")), FileIO, seg, false))
	if err != nil {
		vFail("c14.open")
		return nil
	}
	if mode == HintKeyValAndRAMIdxMode {
		c20Populate(db)
	} else {
		// several small transactions so that segments rotate (sparse mode: on-disk index files exist)
		for i := 0; i < 3; i++ {
			k := []byte{'k', byte('0' + i)}
			_ = db.Update(func(tx *Tx) error { return tx.Put("a", k, []byte("v"), 0) })
		}
	}
	return db
}

// params: mode, rw, lo, hi, seg
func H_C14_Discipline() {
	vSetup()
	defer vCleanup()
	mode := EntryIdxMode(vParam("mode"))
	db := c14Open(mode, int64(vParam("seg")))
	if db == nil {
		return
	}
	lo, hi := vParam("lo"), vParam("hi")
	n := lo + vChoose(hi-lo)
	writable := vChoose(2) == 0
	vShare(db)
	vTrace(true)
	vReach("c14.op")
	if writable {
		_ = db.Update(func(tx *Tx) error { c20Call(tx, n); return nil })
	} else {
		_ = db.View(func(tx *Tx) error { c20Call(tx, n); return nil })
	}
	vTrace(false)
	vAssert("c14.lock-released", vLockHeld(&db.mu) == 0)
}

// manual transactions, Close, Begin on a closed database, failing commits
func H_C14_Lifecycle() {
	vSetup()
	defer vCleanup()
	db := c14Open(HintKeyValAndRAMIdxMode, 64)
	if db == nil {
		return
	}
	vShare(db)
	vTrace(true)
	vReach("c14.lifecycle")
	switch vChoose(6) {
	case 0:
		tx, err := db.Begin(true)
		if err == nil {
			_ = tx.Put("a", []byte("k9"), []byte("v"), 0)
			_ = tx.Commit()
		}
	case 1:
		tx, err := db.Begin(vChoose(2) == 0)
		if err == nil {
			_ = tx.Rollback()
		}
	case 2:
		_ = db.Close()
		_, err := db.Begin(vChoose(2) == 0)
		vAssert("c14.begin-after-close-errors", err != nil)
	case 3:
		// a commit that fails (oversized entry) inside Update must release the lock
		big := make([]byte, 200)
		err := db.Update(func(tx *Tx) error { return tx.Put("a", []byte("k"), big, 0) })
		vAssert("c14.oversize-fails", err != nil)
	case 4:
		err := db.Update(func(tx *Tx) error { return errUser })
		vAssert("c14.fn-error", err != nil)
	case 5:
		_ = db.Close()
		_ = db.Close()
	}
	vTrace(false)
	vAssert("c14.lock-released", vLockHeld(&db.mu) == 0)
}

// C17: Merge as one side
func H_C17_Merge() {
	vSetup()
	defer vCleanup()
	mode := EntryIdxMode(vParam("mode"))
	db, err := Open(vOptsFull(vDir(), mode, RWMode(vParam("rw")), FileIO, 64, false))
	if err != nil {
		vFail("c17.open")
		return
	}
	// files=0: a single data file, Merge refuses ("at least 2"); files=1: several files, Merge rewrites
	n := 1
	if vParam("files") == 1 {
		n = 3
	}
	for i := 0; i < n; i++ {
		k := []byte{'k', byte('0' + i)}
		_ = db.Update(func(tx *Tx) error { return tx.Put("a", k, []byte("v"), 0) })
	}
	if n > 1 {
		_ = db.Update(func(tx *Tx) error { return tx.Delete("a", []byte("k0")) })
	}
	if vParam("ds") == 1 && mode == HintKeyValAndRAMIdxMode {
		// list, set and sorted-set records spread over further segments: Merge consults their indexes
		_ = db.Update(func(tx *Tx) error { return tx.RPush(bucketList, vDSKeys[0], []byte("a"), []byte("b")) })
		_ = db.Update(func(tx *Tx) error { _, e := tx.LPop(bucketList, vDSKeys[0]); return e })
		_ = db.Update(func(tx *Tx) error { return tx.SAdd(bucketSet, vDSKeys[0], []byte("a"), []byte("b")) })
		_ = db.Update(func(tx *Tx) error { return tx.SRem(bucketSet, vDSKeys[0], []byte("a")) })
		_ = db.Update(func(tx *Tx) error { return tx.ZAdd(bucketZSet, []byte("m"), 1, []byte("v")) })
		_ = db.Update(func(tx *Tx) error { return tx.ZAdd(bucketZSet, []byte("n"), 2, []byte("w")) })
		_ = db.Update(func(tx *Tx) error { return tx.ZRem(bucketZSet, "m") })
	}
	vShare(db)
	vTrace(true)
	vReach("c17.merge")
	// the listed finding covers the unprotected accesses of the functions it names (violation_ids in
	// known_findings.json); lock balance, deadlocks and accesses from other functions are not covered
	vKnown("KF-C17-merge-without-lock", true)
	err = db.Merge()
	vTrace(false)
	vAssert("c17.merge-outcome", (err == nil) == (n > 1))
	vAssert("c17.lock-released", vLockHeld(&db.mu) == 0)
	vAssert("c17.not-merging-afterwards", !db.isMerging)
	// the database stays usable: a writer, a reader and Close all get the lock (a lock left held by
	// Merge shows up here as a self-deadlock in the lock model)
	err = db.Update(func(tx *Tx) error { return tx.Put("a", []byte("k9"), []byte("w"), 0) })
	vAssert("c17.update-after-merge", err == nil)
	err = db.View(func(tx *Tx) error {
		e, err := tx.Get("a", []byte("k9"))
		if err != nil {
			return err
		}
		vAssert("c17.read-after-merge", string(e.Value) == "w")
		return nil
	})
	vAssert("c17.view-after-merge", err == nil)
	vAssert("c17.lock-released-2", vLockHeld(&db.mu) == 0)
	vAssert("c17.close-after-merge", db.Close() == nil)
}

// C18: Backup holds the read lock for the whole copy, and the copy opens to the same observation.
func H_C18_Backup() {
	vSetup()
	defer vCleanup()
	mode := EntryIdxMode(vParam("mode"))
	opt := vOptsFull(vDir(), mode, RWMode(vParam("rw")), RWMode(vParam("rw")), 64, false)
	db, err := Open(opt)
	if err != nil {
		vFail("c18.open")
		return
	}
	txs := genTxs(vParam("profile"), 2, 1)
	runTxs(db, txs)
	keys := kvKeysOf(txs)
	structs := mode == HintKeyValAndRAMIdxMode
	o0 := observe(db, keys, structs)
	dst := vDir()
	vShare(db)
	vTrace(true)
	vReach("c18.backup")
	err = db.Backup(dst)
	vTrace(false)
	vAssert("c18.backup-ok", err == nil)
	vAssert("c18.lock-released", vLockHeld(&db.mu) == 0)
	// writes after the backup must not show up in the copy. They are traced as well: what a writer
	// writes (files, indexes) is what Backup must not read outside the lock
	more := genTxs(vParam("profile"), 1, 1)
	vTrace(true)
	runTxs(db, more)
	vTrace(false)
	opt2 := opt
	opt2.Dir = dst
	db2, err := Open(opt2)
	vAssert("c18.copy-opens", err == nil)
	if err != nil {
		return
	}
	oc := observe(db2, keys, structs)
	obsDescribe("source-at-backup", o0)
	obsDescribe("copy", oc)
	vAssert("c18.copy-shows-state-at-backup", obsSame(o0, oc))
	db2.Close()
	db.Close()
}
