package nutsdb

import (
	"io/ioutil"
	"os"
)

// C19 — storage options do not change results: one symbolic history runs on two databases that differ
// in one option; every call's result, the observation, and the observation after reopen must agree.
// C22 — reopening with an incompatible index mode is refused and leaves the directory unchanged;
// switching between the two RAM modes on key/value data shows the same contents.

type optSet struct {
	mode       EntryIdxMode
	rw, load   RWMode
	sync       bool
}

var optPairs = [][2]optSet{
	{{HintKeyValAndRAMIdxMode, FileIO, FileIO, false}, {HintKeyValAndRAMIdxMode, MMap, MMap, false}}, // 0 RWMode
	{{HintKeyValAndRAMIdxMode, FileIO, FileIO, false}, {HintKeyValAndRAMIdxMode, FileIO, MMap, false}}, // 1 loading mode
	{{HintKeyValAndRAMIdxMode, FileIO, FileIO, false}, {HintKeyValAndRAMIdxMode, FileIO, FileIO, true}}, // 2 SyncEnable
	{{HintKeyValAndRAMIdxMode, FileIO, FileIO, false}, {HintKeyAndRAMIdxMode, FileIO, FileIO, false}},   // 3 RAM modes (kv)
	{{HintKeyValAndRAMIdxMode, FileIO, FileIO, false}, {HintBPTSparseIdxMode, FileIO, FileIO, false}},   // 4 RAM vs sparse (kv)
	{{HintKeyAndRAMIdxMode, MMap, FileIO, true}, {HintKeyAndRAMIdxMode, FileIO, MMap, false}},           // 5 mixed
}

type callRes struct {
	errNil bool
	ret    []byte
	retOK  bool
}

func runRecorded(db *DB, txs [][]*sOp) ([]callRes, []bool) {
	var rs []callRes
	var commits []bool
	for _, ops := range txs {
		err := db.Update(func(tx *Tx) error {
			for _, o := range ops {
				_ = applyOp(tx, o)
				rs = append(rs, callRes{o.err == nil, o.ret, o.retOK})
			}
			return nil
		})
		commits = append(commits, err == nil)
	}
	return rs, commits
}

func resSame(a, b []callRes) bool {
	if len(a) != len(b) {
		return false
	}
	ok := true
	for i := range a {
		if a[i].errNil != b[i].errNil || a[i].retOK != b[i].retOK || len(a[i].ret) != len(b[i].ret) {
			return false
		}
		if a[i].retOK {
			ok = vAnd(ok, vEqBytes(a[i].ret, b[i].ret))
		}
	}
	return ok
}

// H_C19_Options params: pair (index into optPairs), profile, ntx, maxops, seg (0: exactly-full shapes)
func H_C19_Options() {
	vSetup()
	defer vCleanup()
	pair := optPairs[vParam("pair")]
	// sparse mode is a different implementation of the reads: there "empty" and "error" may swap (§4.1)
	vObsStrict = pair[0].mode != HintBPTSparseIdxMode && pair[1].mode != HintBPTSparseIdxMode
	defer func() { vObsStrict = true }()
	// segment sizes: roomy, one entry per file, and "an entry exactly fills the segment" (45 = 42+1+1+1)
	segs := []int64{4096, 60, 45, 90}
	seg := segs[vChoose(vParam("nseg"))]
	var dbs [2]*DB
	var opts [2]Options
	for i, p := range pair {
		opts[i] = vOptsFull(vDir(), p.mode, p.rw, p.load, seg, p.sync)
		db, err := Open(opts[i])
		if err != nil {
			vFail("c19.open")
			return
		}
		dbs[i] = db
	}
	txs := genTxs(vParam("profile"), vParam("ntx"), vParam("maxops"))
	keys := kvKeysOf(txs)
	structs := pair[0].mode == HintKeyValAndRAMIdxMode && pair[1].mode == HintKeyValAndRAMIdxMode
	r0, c0 := runRecorded(dbs[0], txs)
	r1, c1 := runRecorded(dbs[1], txs)
	vReach("c19.ran")
	vAssert("c19.same-call-results", resSame(r0, r1))
	sameCommits := len(c0) == len(c1)
	for i := range c0 {
		sameCommits = sameCommits && c0[i] == c1[i]
	}
	vAssert("c19.same-commit-results", sameCommits)
	o0, o1 := observe(dbs[0], keys, structs), observe(dbs[1], keys, structs)
	obsDescribe("p", o0)
	obsDescribe("q", o1)
	vAssert("c19.same-observation", obsSame(o0, o1))
	var after [2][]obsItem
	for i := range dbs {
		vAssert("c19.close", dbs[i].Close() == nil)
		db, err := Open(opts[i])
		vAssert("c19.reopen-ok", err == nil)
		if err != nil {
			return
		}
		after[i] = observe(db, keys, structs)
		db.Close()
	}
	vAssert("c19.same-after-reopen", obsSame(after[0], after[1]))
	vAssert("c19.reopen-preserves", obsSame(o0, after[0]))
}

// dirImage lists every file under dir with its contents (through the real os / ioutil calls, which
// the engine maps to the modelled file system).
func dirImage(dir string) []obsItem {
	var out []obsItem
	var walk func(d string)
	walk = func(d string) {
		fis, err := vReadDirNames(d)
		if err != nil {
			return
		}
		for _, fi := range fis {
			p := d + "/" + fi.name
			if fi.isDir {
				out = append(out, obsItem{tag: "dir:" + p})
				walk(p)
			} else {
				out = append(out, obsItem{tag: "file:" + p, seq: [][]byte{vReadFile(p)}})
			}
		}
	}
	walk(dir)
	return out
}

// H_C22_IdxMode params: m1 (creating mode), m2 (reopening mode), state (0 fresh, 1 written, 2 merged)
func H_C22_IdxMode() {
	vSetup()
	defer vCleanup()
	m1, m2 := EntryIdxMode(vParam("m1")), EntryIdxMode(vParam("m2"))
	dir := vDir()
	opt1 := vOptsFull(dir, m1, FileIO, FileIO, 60, false)
	db, err := Open(opt1)
	if err != nil {
		vFail("c22.open")
		return
	}
	state := vChoose(vParam("nstates"))
	var txs [][]*sOp
	if state >= 1 {
		txs = genTxs(6, 2, 1)
		runTxs(db, txs)
	}
	if state == 2 && m1 != HintBPTSparseIdxMode {
		_ = db.Merge()
	}
	keys := kvKeysOf(txs)
	o0 := observe(db, keys, false)
	vAssert("c22.close", db.Close() == nil)
	img0 := dirImage(dir)
	vReach("c22.reopen")
	opt2 := opt1
	opt2.EntryIdxMode = m2
	db2, err := Open(opt2)
	sparse1, sparse2 := m1 == HintBPTSparseIdxMode, m2 == HintBPTSparseIdxMode
	// "holds data": a data segment is present (a Merge of fully deleted data removes every segment)
	hasData := false
	for _, it := range img0 {
		if len(it.tag) > 4 && it.tag[len(it.tag)-4:] == DataSuffix {
			hasData = true
		}
	}
	if sparse1 != sparse2 && hasData {
		vAssert("c22.incompatible-mode-refused", err != nil)
		if err == nil {
			db2.Close()
		}
		vAssert("c22.directory-unchanged", obsSame(img0, dirImage(dir)))
		return
	}
	if sparse1 == sparse2 {
		vAssert("c22.compatible-mode-opens", err == nil)
		if err != nil {
			return
		}
		o1 := observe(db2, keys, false)
		vAssert("c22.same-contents", obsSame(o0, o1))
	}
	if err == nil {
		db2.Close()
	}
}

type vDirEnt struct {
	name  string
	isDir bool
}

func vReadDirNames(d string) ([]vDirEnt, error) {
	fis, err := ioutil.ReadDir(d)
	if err != nil {
		return nil, err
	}
	var out []vDirEnt
	for _, fi := range fis {
		out = append(out, vDirEnt{fi.Name(), fi.IsDir()})
	}
	return out, nil
}

func vReadFile(p string) []byte {
	fi, err := os.Stat(p)
	if err != nil {
		return nil
	}
	f, err := os.Open(p)
	if err != nil {
		return nil
	}
	defer f.Close()
	b := make([]byte, fi.Size())
	if len(b) > 0 {
		f.ReadAt(b, 0)
	}
	return b
}
