//go:build gosmt

package nutsdb

// Environment model executed symbolically by gosmt: an in-memory file system (POSIX pread/pwrite
// semantics, page-cache coherent mmap), a controllable clock and a transaction-id source.
// Every function marked //gosmt:replace stands in for the named callee whenever the real code calls it.
// Contracts are listed in DESIGN.md §3; every stub here is part of the claim of the checks that use it.

import (
	"errors"
	"io"
	"io/fs"
	"os"
	"time"
	"unsafe"

	"github.com/bwmarrin/snowflake"
	mmap "github.com/xujiajun/mmap-go"
)

type vFile struct {
	name   string
	data   []byte
	exists bool
	isDir  bool
	// durable shadow for the power-loss model
	ddata   []byte
	dexists bool
}

type vHandle struct {
	f      *vFile
	pos    int64
	closed bool
}

var (
	vfsFiles []*vFile
	vfsMut   int  // number of mutation points passed
	vfsArmed bool // crash injection armed: each mutation point may be the crash point
	vfsFault bool // fault injection armed: one write may fail (with a partial write)
	vfsFaulted bool
	vfsInData bool // inside DataFile.WriteAt (its os-level write is not a second mutation point)
	vfsPowerLoss bool // track durable shadows
	vfsOps   int  // count of os-level operations (for evidence/debug)

	vErrNotExist = errors.New("vfs: no such file or directory")
	vErrExist    = errors.New("vfs: file exists")
	vErrIO       = errors.New("vfs: injected I/O error")
	vErrClosed   = errors.New("vfs: file already closed")
	vErrInvalid  = errors.New("vfs: invalid argument")
)

func vfsLookup(name string) *vFile {
	for _, f := range vfsFiles {
		if f.name == name {
			return f
		}
	}
	return nil
}

func vfsParent(name string) string {
	for i := len(name) - 1; i > 0; i-- {
		if name[i] == '/' {
			return name[:i]
		}
	}
	return ""
}

func vfsDirExists(dir string) bool {
	if dir == "" || dir == "/" || dir == "." {
		return true
	}
	f := vfsLookup(dir)
	return f != nil && f.exists && f.isDir
}

// vfsPoint is a file-mutation point: when crash injection is armed, the solver-explored choice
// "the process dies here" is taken at exactly one point per path.
func vfsPoint() bool {
	vfsMut++
	if vfsArmed && vChoose(2) == 1 {
		vfsArmed = false
		return true
	}
	return false
}

func vfsReset() {
	vfsFiles = nil
	vfsMut = 0
	vfsArmed, vfsFault, vfsFaulted, vfsInData, vfsFewCuts = false, false, false, false, false
}

//gosmt:replace os.MkdirAll
func vMkdirAll(path string, perm os.FileMode) error {
	vfsOps++
	// create every missing ancestor
	for i := 1; i <= len(path); i++ {
		if i == len(path) || path[i] == '/' {
			d := path[:i]
			f := vfsLookup(d)
			if f == nil {
				vfsFiles = append(vfsFiles, &vFile{name: d, exists: true, isDir: true, dexists: true})
			} else if !f.exists {
				f.exists, f.isDir = true, true
			} else if !f.isDir {
				return vErrExist
			}
		}
	}
	return nil
}

//gosmt:replace github.com/xujiajun/utils/filesystem.PathIsExist
func vPathIsExist(path string) bool {
	f := vfsLookup(path)
	return f != nil && f.exists
}

//gosmt:replace os.IsNotExist
func vIsNotExist(err error) bool { return err == vErrNotExist }

//gosmt:replace os.OpenFile
func vOpenFile(name string, flag int, perm os.FileMode) (*os.File, error) {
	vfsOps++
	f := vfsLookup(name)
	if f == nil || !f.exists {
		if flag&os.O_CREATE == 0 {
			return nil, vErrNotExist
		}
		if !vfsDirExists(vfsParent(name)) {
			return nil, vErrNotExist
		}
		if vfsPoint() {
			panic(vCrash{})
		}
		if f == nil {
			f = &vFile{name: name}
			vfsFiles = append(vfsFiles, f)
		}
		f.exists, f.isDir, f.data = true, false, []byte{}
	}
	if f.isDir && flag&(os.O_WRONLY|os.O_RDWR) != 0 {
		return nil, vErrInvalid
	}
	h := &vHandle{f: f}
	return (*os.File)(unsafe.Pointer(h)), nil
}

//gosmt:replace os.Open
func vOpen(name string) (*os.File, error) { return vOpenFile(name, os.O_RDONLY, 0) }

//gosmt:replace os.Remove
func vRemove(name string) error {
	vfsOps++
	vFileAccess(true)
	f := vfsLookup(name)
	if f == nil || !f.exists {
		return vErrNotExist
	}
	if vfsPoint() {
		panic(vCrash{})
	}
	f.exists = false
	f.data = nil
	return nil
}

type vFileInfo struct {
	name  string
	size  int64
	isDir bool
}

func (fi vFileInfo) Name() string       { return fi.name }
func (fi vFileInfo) Size() int64        { return fi.size }
func (fi vFileInfo) Mode() fs.FileMode  { return 0644 }
func (fi vFileInfo) ModTime() time.Time { return time.Time{} }
func (fi vFileInfo) IsDir() bool        { return fi.isDir }
func (fi vFileInfo) Sys() interface{}   { return nil }

func vfsBase(name string) string {
	for i := len(name) - 1; i >= 0; i-- {
		if name[i] == '/' {
			return name[i+1:]
		}
	}
	return name
}

//gosmt:replace os.Stat
func vStat(name string) (os.FileInfo, error) {
	f := vfsLookup(name)
	if f == nil || !f.exists {
		return nil, vErrNotExist
	}
	return vFileInfo{name: vfsBase(name), size: int64(len(f.data)), isDir: f.isDir}, nil
}

//gosmt:replace io/ioutil.ReadDir
func vReadDir(dir string) ([]os.FileInfo, error) {
	vfsOps++
	d := vfsLookup(dir)
	if d == nil || !d.exists || !d.isDir {
		return nil, vErrNotExist
	}
	var out []os.FileInfo
	for _, f := range vfsFiles {
		if f.exists && vfsParent(f.name) == dir {
			fi := vFileInfo{name: vfsBase(f.name), size: int64(len(f.data)), isDir: f.isDir}
			// insertion sort by name (ReadDir returns entries sorted by filename)
			out = append(out, fi)
			for j := len(out) - 1; j > 0; j-- {
				if out[j].Name() < out[j-1].Name() {
					out[j], out[j-1] = out[j-1], out[j]
				} else {
					break
				}
			}
		}
	}
	return out, nil
}

func vh(f *os.File) *vHandle { return (*vHandle)(unsafe.Pointer(f)) }

//gosmt:replace (*os.File).Close
func vFileClose(f *os.File) error {
	if f == nil {
		return vErrInvalid
	}
	h := vh(f)
	if h.closed {
		return vErrClosed
	}
	h.closed = true
	return nil
}

// vfsWrite applies a pwrite, possibly torn (crash) or failed (fault injection).
func vfsWrite(file *vFile, b []byte, off int64, point bool) (int, error) {
	n := len(b)
	crash, fail := false, false
	if point && n > 0 {
		crash = vfsPoint()
		if !crash && vfsFault && !vfsFaulted && vChoose(2) == 1 {
			vfsFaulted = true
			fail = true
		}
	}
	if crash || fail {
		// a prefix of symbolic length reaches the file
		cut := vNondetInt()
		vAssume(vAnd(cut >= 0, cut <= n))
		// when the file is large enough (preallocated segment) the torn write is a per-byte choice,
		// otherwise concretise the cut
		if int(off)+n <= len(file.data) {
			for i := 0; i < n; i++ {
				file.data[int(off)+i] = vIteByte(i < cut, b[i], file.data[int(off)+i])
			}
		} else {
			c := cut
			for i := 0; i < n; i++ {
				if i < c {
					vfsPut(file, int(off)+i, b[i])
				}
			}
		}
		if crash {
			panic(vCrash{})
		}
		return cut, vErrIO
	}
	// whole write: no per-byte loop (records with long keys exceed the loop bound of the engine)
	if end := int(off) + n; len(file.data) < end {
		file.data = append(file.data, make([]byte, end-len(file.data))...)
	}
	copy(file.data[int(off):], b)
	return n, nil
}

func vfsPut(file *vFile, pos int, v byte) {
	for len(file.data) <= pos {
		file.data = append(file.data, 0)
	}
	file.data[pos] = v
}

func vIteByte(c bool, a, b byte) byte { return byte(vIte(c, int(a), int(b))) }

//gosmt:replace (*os.File).WriteAt
func vFileWriteAt(f *os.File, b []byte, off int64) (int, error) {
	vfsOps++
	vFileAccess(true)
	h := vh(f)
	if h.closed {
		return 0, vErrClosed
	}
	if off < 0 {
		return 0, vErrInvalid
	}
	return vfsWrite(h.f, b, off, !vfsInData)
}

//gosmt:replace (*os.File).ReadAt
func vFileReadAt(f *os.File, b []byte, off int64) (int, error) {
	vfsOps++
	vFileAccess(false)
	h := vh(f)
	if h.closed {
		return 0, vErrClosed
	}
	if off < 0 {
		return 0, vErrInvalid
	}
	if len(b) == 0 {
		return 0, nil
	}
	if off >= int64(len(h.f.data)) {
		return 0, io.EOF
	}
	n := copy(b, h.f.data[off:])
	if n < len(b) {
		return n, io.EOF
	}
	return n, nil
}

//gosmt:replace (*os.File).Read
func vFileRead(f *os.File, b []byte) (int, error) {
	h := vh(f)
	if h.closed {
		return 0, vErrClosed
	}
	if len(b) == 0 {
		return 0, nil
	}
	if h.pos >= int64(len(h.f.data)) {
		return 0, io.EOF
	}
	n := copy(b, h.f.data[h.pos:])
	h.pos += int64(n)
	return n, nil
}

//gosmt:replace (*os.File).Seek
func vFileSeek(f *os.File, offset int64, whence int) (int64, error) {
	h := vh(f)
	if h.closed {
		return 0, vErrClosed
	}
	switch whence {
	case 0:
		h.pos = offset
	case 1:
		h.pos += offset
	default:
		h.pos = int64(len(h.f.data)) + offset
	}
	if h.pos < 0 {
		h.pos = 0
		return 0, vErrInvalid
	}
	return h.pos, nil
}

//gosmt:replace (*os.File).Truncate
func vFileTruncate(f *os.File, size int64) error {
	vfsOps++
	vFileAccess(true)
	h := vh(f)
	if h.closed {
		return vErrClosed
	}
	if size < 0 {
		return vErrInvalid
	}
	if vfsPoint() {
		panic(vCrash{})
	}
	if int64(len(h.f.data)) > size {
		h.f.data = h.f.data[:size]
		return nil
	}
	// grow with zeros; exact capacity so that a later mapping aliases a fixed region
	nd := make([]byte, size)
	copy(nd, h.f.data)
	h.f.data = nd
	return nil
}

//gosmt:replace (*os.File).Sync
func vFileSync(f *os.File) error {
	vfsOps++
	h := vh(f)
	if h.closed {
		return vErrClosed
	}
	vfsSyncFile(h.f)
	return nil
}

func vfsSyncFile(file *vFile) {
	if !vfsPowerLoss {
		return
	}
	file.ddata = append([]byte{}, file.data...)
	file.dexists = file.exists
}

//gosmt:replace github.com/xujiajun/mmap-go.Map
func vMmapMap(f *os.File, prot, flags int) (mmap.MMap, error) {
	h := vh(f)
	if h.closed {
		return nil, vErrClosed
	}
	if len(h.f.data) == 0 {
		return nil, vErrInvalid
	}
	// the mapping aliases the file contents (shared mapping, coherent with read/write)
	return mmap.MMap(h.f.data[:len(h.f.data):len(h.f.data)]), nil
}

func vfsFileOfMapping(m mmap.MMap) *vFile {
	if len(m) == 0 {
		return nil
	}
	for _, f := range vfsFiles {
		if len(f.data) > 0 && &f.data[0] == &m[0] {
			return f
		}
	}
	return nil
}

//gosmt:replace (github.com/xujiajun/mmap-go.MMap).Flush
func vMmapFlush(m mmap.MMap) error {
	vfsOps++
	if f := vfsFileOfMapping(m); f != nil {
		vfsSyncFile(f)
	}
	return nil
}

//gosmt:replace (*github.com/xujiajun/mmap-go.MMap).Unmap
func vMmapUnmap(m *mmap.MMap) error {
	*m = nil
	return nil
}

//gosmt:replace github.com/xujiajun/utils/filesystem.CopyDir
func vCopyDir(src, dst string) error {
	vfsOps++
	vFileAccess(false)
	s := vfsLookup(src)
	if s == nil || !s.exists || !s.isDir {
		return vErrNotExist
	}
	if d := vfsLookup(dst); d != nil && d.exists {
		return vErrExist
	}
	vMkdirAll(dst, 0755)
	n := len(vfsFiles)
	for i := 0; i < n; i++ {
		f := vfsFiles[i]
		if !f.exists || len(f.name) <= len(src) || f.name[:len(src)+1] != src+"/" {
			continue
		}
		nn := dst + f.name[len(src):]
		if f.isDir {
			vMkdirAll(nn, 0755)
			continue
		}
		vfsFiles = append(vfsFiles, &vFile{name: nn, exists: true, data: append([]byte{}, f.data...)})
	}
	return nil
}

//gosmt:replace github.com/xujiajun/utils/filesystem.CopyFile
func vCopyFile(src, dst string) error {
	vfsOps++
	vFileAccess(false)
	s := vfsLookup(src)
	if s == nil || !s.exists || s.isDir {
		return vErrNotExist
	}
	if !vfsDirExists(vfsParent(dst)) {
		return vErrNotExist
	}
	d := vfsLookup(dst)
	if d == nil {
		d = &vFile{name: dst}
		vfsFiles = append(vfsFiles, d)
	}
	d.exists, d.isDir, d.data = true, false, append([]byte{}, s.data...)
	return nil
}

// (*DataFile).WriteAt is a one-line wrapper around the RWManager; replacing it (and only it) lets the
// model tear or fail a segment write for both managers while the real FileIORWManager / MMapRWManager
// code still performs the write.
//
//gosmt:replace (*github.com/xujiajun/nutsdb.DataFile).WriteAt
func vDataFileWriteAt(df *DataFile, b []byte, off int64) (int, error) {
	crash, fail := false, false
	if len(b) > 0 {
		crash = vfsPoint()
		if !crash && vfsFault && !vfsFaulted && vChoose(2) == 1 {
			vfsFaulted = true
			fail = true
		}
	}
	vfsInData = true
	defer func() { vfsInData = false }()
	if crash || fail {
		// a crash cuts the write at every byte; an injected error uses representative partial lengths
		cut := 0
		if crash && !vfsFewCuts {
			cut = vChoose(len(b) + 1)
		} else {
			cuts := []int{0, 1, len(b) / 2, len(b) - 1, len(b)}
			cut = cuts[vChoose(len(cuts))]
		}
		if cut > 0 {
			df.rwManager.WriteAt(b[:cut], off)
		}
		if crash {
			panic(vCrash{})
		}
		return cut, vErrIO
	}
	return df.rwManager.WriteAt(b, off)
}

// ---- clocks and transaction ids ----

var (
	vClk     int64 // wall clock, seconds (symbolic base chosen by the harness)
	vMsMode  int   // 0: strictly increasing concrete milliseconds, 1: symbolic non-decreasing
	vMsLast  int64 = 400000000000
)

//gosmt:replace time.Now
func vTimeNow() time.Time { return time.Unix(vClk, 0) }

func vMsNow() int64 {
	if vMsMode == 0 {
		vMsLast++
		return vMsLast
	}
	d := vNondetInt64()
	vAssume(vAnd(d >= 0, d < 1<<20))
	vMsLast += d
	return vMsLast
}

// snowflake model: NewNode returns a fresh node (time 0, step 0); Generate follows the library's
// algorithm over the model's millisecond clock.
//
//gosmt:replace github.com/bwmarrin/snowflake.NewNode
func vSnowNewNode(node int64) (*snowflake.Node, error) {
	if node < 0 || node > 1023 {
		return nil, errors.New("Node number must be between 0 and 1023")
	}
	n := &vSnowNode{node: node}
	return (*snowflake.Node)(unsafe.Pointer(n)), nil
}

type vSnowNode struct {
	time, node, step int64
}

//gosmt:replace (*github.com/bwmarrin/snowflake.Node).Generate
func vSnowGenerate(n *snowflake.Node) snowflake.ID {
	s := (*vSnowNode)(unsafe.Pointer(n))
	now := vMsNow()
	if now == s.time {
		s.step = (s.step + 1) & 4095
	} else {
		s.step = 0
	}
	s.time = now
	return snowflake.ID(now<<22 | s.node<<12 | s.step)
}

// ---- crash / power-loss control used by the scenario harnesses (engine side) ----

func vArm()    { vfsArmed = true }
func vDisarm() { vfsArmed = false }
func vArmFault() {
	vfsFault, vfsFaulted = true, false
}
func vDisarmFault() bool {
	f := vfsFaulted
	vfsFault = false
	return f
}
func vPowerLossMode(on bool) { vfsPowerLoss = on }

// vFewCuts: a crash tears a segment write at the representative lengths {0, 1, len/2, len-1, len} instead
// of at every byte (used by the quick power-loss configurations; every-byte tearing is C10's).
var vfsFewCuts bool

func vFewCuts(on bool) { vfsFewCuts = on }

// vPowerFail turns the crash into a power loss: every file independently either keeps its current
// content or reverts to its content at its last sync (files never synced may vanish, unsynced removals
// may be undone). It reports whether the removal of a file was undone while the removal of a file
// created later was kept (removals reaching the disk out of order).
func vPowerFail(dir string) (unlinkReordered bool) {
	undoneEarlier := false
	for _, f := range vfsFiles {
		if f.isDir || len(f.name) <= len(dir) || f.name[:len(dir)+1] != dir+"/" {
			continue
		}
		if f.exists == f.dexists && len(f.data) == len(f.ddata) {
			if eq := vEqBytes(f.data, f.ddata); vIsConcrete(eq) && eq {
				continue // nothing unsynced
			}
		}
		removed := !f.exists && f.dexists
		if vChoose(2) == 1 {
			f.data = append([]byte{}, f.ddata...)
			f.exists = f.dexists
			if removed {
				undoneEarlier = true
			}
		} else if removed && undoneEarlier {
			unlinkReordered = true
		}
	}
	return unlinkReordered
}


// vImageSave records the directory image (evaluated under the solver's model) so that a native replay
// can be run on the same bytes.
func vImageSave(dir string) {
	for _, f := range vfsFiles {
		if len(f.name) <= len(dir) || f.name[:len(dir)+1] != dir+"/" || !f.exists {
			continue
		}
		rel := f.name[len(dir):]
		if f.isDir {
			vObserveInt("imgdir:"+rel, 1)
		} else {
			vObserveBytes("img:"+rel, f.data)
		}
	}
}

func vImageLoad(dir string)        {}
func vPredictedInt(tag string) int { return 0 }

func vSetMsMode(m int) { vMsMode = m }

func vImageObserve(dir string) {}
