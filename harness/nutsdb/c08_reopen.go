package nutsdb

// C08 / C09 — a clean reopen preserves every observable result, and Open succeeds on what the
// library wrote. Differential: the full observation before Close must equal the one after Open.

func H_C08_Reopen() {
	vSetup()
	defer vCleanup()
	// Close/Open replays the same log through the same structures: a read that failed before Close must
	// fail after Open and vice versa ("empty" and "error" are not interchangeable here)
	vObsStrict = true
	defer func() { vObsStrict = false }()
	mode := EntryIdxMode(vParam("mode"))
	rw := RWMode(vParam("rw"))
	segs := []int64{4096, 60}
	opt := vOptsFull(vDir(), mode, rw, rw, segs[vChoose(vParam("nseg"))], false)
	db, err := Open(opt)
	if err != nil {
		vFail("c08.open")
		return
	}
	var seedKeys [][]byte
	if vParam("seed") == 1 {
		seedKeys = seedState(db, vParam("profile"))
	}
	txs := genTxs(vParam("profile"), vParam("ntx"), vParam("maxops"))
	for _, e := range runTxs(db, txs) {
		vAssert("c08.update-ok", e == nil)
	}
	keys := append(seedKeys, kvKeysOf(txs)...)
	structs := mode == HintKeyValAndRAMIdxMode
	o0 := observe(db, keys, structs)
	vReach("c08.before-close")
	vAssert("c08.close", db.Close() == nil)
	db2, err := Open(opt)
	vAssert("c09.reopen-succeeds", err == nil)
	if err != nil {
		return
	}
	o1 := observe(db2, keys, structs)
	obsDescribe("before", o0)
	obsDescribe("after", o1)
	vAssert("c08.same-after-reopen", obsSame(o0, o1))
	db2.Close()
}
