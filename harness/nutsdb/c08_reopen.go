package nutsdb

// C08 / C09 — a clean reopen preserves every observable result, and Open succeeds on what the
// library wrote. Differential: the full observation before Close must equal the one after Open.

func H_C08_Reopen() {
	vSetup()
	defer vCleanup()
	// Close/Open replays the same log through the same structures: a read that failed before Close must
	// fail after Open and vice versa ("empty" and "error" are not interchangeable here)
	mode := EntryIdxMode(vParam("mode"))
	rw := RWMode(vParam("rw"))
	segs := []int64{4096, 60}
	seg := segs[vChoose(vParam("nseg"))]
	if vParam("pre") > 0 {
		seg = 60 // one record per data file
	}
	opt := vOptsFull(vDir(), mode, rw, rw, seg, false)
	db, err := Open(opt)
	if err != nil {
		vFail("c08.open")
		return
	}
	var seedKeys [][]byte
	if vParam("seed") == 1 {
		seedKeys = seedState(db, vParam("profile"))
	}
	// pre > 0: that many concrete one-record transactions first (two-digit file ids with SegmentSize 60)
	pre := preTxs(vParam("pre"), mode == HintKeyValAndRAMIdxMode)
	vConcreteArgs, vArgCounter = len(pre) > 0, 0 // many-segment configurations: concrete keys, the file order is the subject
	runTxs(db, pre)
	txs := genTxs(vParam("profile"), vParam("ntx"), vParam("maxops"))
	for _, e := range runTxs(db, txs) {
		vAssert("c08.update-ok", e == nil)
	}
	keys := append(append(seedKeys, kvKeysOf(pre[:min1(len(pre))])...), kvKeysOf(txs)...)
	structs := mode == HintKeyValAndRAMIdxMode
	o0 := observe(db, keys, structs)
	vReach("c08.before-close")
	vAssert("c08.close", db.Close() == nil)
	db2, err := Open(opt)
	vAssert("c09.reopen-succeeds", err == nil)
	if err != nil {
		return
	}
	o1 := observe(db2, keys, structs)
	obsDescribe("before", o0)
	obsDescribe("after", o1)
	vAssert("c08.same-after-reopen", obsSame(o0, o1))
	db2.Close()
}

func min1(n int) int {
	if n > 1 {
		return 1
	}
	return n
}
