package nutsdb

// vCrash is the panic value with which the modelled file system ends the process at a crash point.
type vCrash struct{}

// vTry runs f; it reports false when the modelled process died inside f.
func vTry(f func()) (ok bool) {
	defer func() {
		if r := recover(); r != nil {
			if _, is := r.(vCrash); is {
				ok = false
				return
			}
			panic(r)
		}
	}()
	f()
	return true
}
