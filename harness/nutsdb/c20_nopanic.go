package nutsdb

import (
	"math"

	"github.com/xujiajun/nutsdb/ds/zset"
)

// C20 — no argument or state makes an API call panic. Every exported Tx method is called once on a
// populated database (all four structures present) with adversarial arguments: buckets of the right
// kind / the wrong kind / missing / empty, nil / empty / separator-containing keys, fully symbolic
// 64-bit indexes, counts, offsets and limits on the read paths, boundary integers where the value is
// encoded into a record, NaN / infinite scores, an invalid regular expression, nil options. The call is
// followed by Commit (so a call that succeeded must not make Commit panic), and the same calls run on a
// finished transaction and on a closed database. The only obligation is the implicit one: no panic
// reaches the harness.

var c20Ints = []int{math.MinInt64, math.MinInt64 + 1, -3, -1, 0, 1, 3, math.MaxInt64 - 1, math.MaxInt64}
var c20Floats = []float64{0, -1, 1.5, math.NaN(), math.Inf(1), math.Inf(-1), math.MaxFloat64, 5e-324}

// c20Simple: on finished transactions and closed databases the argument shapes do not matter (every
// call must fail early); one shape per call keeps those states small.
var c20Simple bool

func c20Bucket(right string) string {
	if c20Simple {
		return right
	}
	switch vChoose(4) {
	case 0:
		return right
	case 1:
		return "nosuch"
	case 2:
		return ""
	}
	// a bucket that exists for another structure
	if right == bucketList {
		return bucketSet
	}
	return bucketList
}

func c20Key(existing []byte) []byte {
	if c20Simple {
		if vChoose(2) == 0 {
			return existing
		}
		return nil
	}
	switch vChoose(5) {
	case 0:
		return existing
	case 1:
		return nil
	case 2:
		return []byte{}
	case 3:
		return []byte("a|b")
	}
	return vBytes(1)
}

func c20Int() int     { return c20Ints[vChoose(len(c20Ints))] }
func c20Float() float64 { return c20Floats[vChoose(len(c20Floats))] }

const c20NumCalls = 50

// c20Call performs call number n on tx. Errors are irrelevant; panics are the violation.
func c20Call(tx *Tx, n int) {
	x := vDSKeys[0]
	switch n {
	case 0:
		_ = tx.Put(c20Bucket("a"), c20Key([]byte("k")), c20Key(nil), vNondetUint32())
	case 1:
		_ = tx.PutWithTimestamp(c20Bucket("a"), c20Key([]byte("k")), c20Key(nil), vNondetUint32(), vNondetUint64())
	case 2:
		_, _ = tx.Get(c20Bucket("a"), c20Key([]byte("k")))
	case 3:
		_, _ = tx.GetAll(c20Bucket("a"))
	case 4:
		_, _ = tx.RangeScan(c20Bucket("a"), c20Key([]byte("k")), c20Key([]byte("k")))
	case 5:
		_, _, _ = tx.PrefixScan(c20Bucket("a"), c20Key([]byte("k")), vNondetInt(), vNondetInt())
	case 6:
		regs := []string{"^k", "(", "", "[a-"}
		_, _, _ = tx.PrefixSearchScan(c20Bucket("a"), c20Key([]byte("k")), regs[vChoose(len(regs))], vNondetInt(), vNondetInt())
	case 7:
		_ = tx.Delete(c20Bucket("a"), c20Key([]byte("k")))
	case 8:
		_, _ = tx.RPop(c20Bucket(bucketList), c20Key(x))
	case 9:
		_, _ = tx.RPeek(c20Bucket(bucketList), c20Key(x))
	case 10:
		if vChoose(2) == 0 {
			_ = tx.RPush(c20Bucket(bucketList), c20Key(x))
		} else {
			_ = tx.RPush(c20Bucket(bucketList), c20Key(x), c20Key(nil), c20Key(nil))
		}
	case 11:
		if vChoose(2) == 0 {
			_ = tx.LPush(c20Bucket(bucketList), c20Key(x))
		} else {
			_ = tx.LPush(c20Bucket(bucketList), c20Key(x), c20Key(nil))
		}
	case 12:
		_, _ = tx.LPop(c20Bucket(bucketList), c20Key(x))
	case 13:
		_, _ = tx.LPeek(c20Bucket(bucketList), c20Key(x))
	case 14:
		_, _ = tx.LSize(c20Bucket(bucketList), c20Key(x))
	case 15:
		_, _ = tx.LRange(c20Bucket(bucketList), c20Key(x), vNondetInt(), vNondetInt())
	case 16:
		_, _ = tx.LRem(c20Bucket(bucketList), c20Key(x), c20Int(), c20Key([]byte("v")))
	case 17:
		_ = tx.LSet(c20Bucket(bucketList), c20Key(x), c20Int(), c20Key([]byte("v")))
	case 18:
		_ = tx.LTrim(c20Bucket(bucketList), c20Key(x), c20Int(), c20Int())
	case 19:
		if vChoose(2) == 0 {
			_ = tx.SAdd(c20Bucket(bucketSet), c20Key(x))
		} else {
			_ = tx.SAdd(c20Bucket(bucketSet), c20Key(x), c20Key(nil), c20Key(nil))
		}
	case 20:
		if vChoose(2) == 0 {
			_ = tx.SRem(c20Bucket(bucketSet), c20Key(x))
		} else {
			_ = tx.SRem(c20Bucket(bucketSet), c20Key(x), c20Key(nil))
		}
	case 21:
		if vChoose(2) == 0 {
			_, _ = tx.SAreMembers(c20Bucket(bucketSet), c20Key(x))
		} else {
			_, _ = tx.SAreMembers(c20Bucket(bucketSet), c20Key(x), c20Key(nil), c20Key(nil))
		}
	case 22:
		_, _ = tx.SIsMember(c20Bucket(bucketSet), c20Key(x), c20Key(nil))
	case 23:
		_, _ = tx.SMembers(c20Bucket(bucketSet), c20Key(x))
	case 24:
		_, _ = tx.SHasKey(c20Bucket(bucketSet), c20Key(x))
	case 25:
		_, _ = tx.SPop(c20Bucket(bucketSet), c20Key(x))
	case 26:
		_, _ = tx.SCard(c20Bucket(bucketSet), c20Key(x))
	case 27:
		_, _ = tx.SDiffByOneBucket(c20Bucket(bucketSet), c20Key(x), c20Key(vDSKeys[1]))
	case 28:
		_, _ = tx.SDiffByTwoBuckets(c20Bucket(bucketSet), c20Key(x), c20Bucket(bucketSet), c20Key(vDSKeys[1]))
	case 29:
		_, _ = tx.SMoveByOneBucket(c20Bucket(bucketSet), c20Key(x), c20Key(vDSKeys[1]), c20Key(nil))
	case 30:
		_, _ = tx.SMoveByTwoBuckets(c20Bucket(bucketSet), c20Key(x), c20Bucket(bucketSet), c20Key(vDSKeys[1]), c20Key(nil))
	case 31:
		_, _ = tx.SUnionByOneBucket(c20Bucket(bucketSet), c20Key(x), c20Key(vDSKeys[1]))
	case 32:
		_, _ = tx.SUnionByTwoBuckets(c20Bucket(bucketSet), c20Key(x), c20Bucket(bucketSet), c20Key(vDSKeys[1]))
	case 33:
		_ = tx.ZAdd(c20Bucket(bucketZSet), c20Key([]byte("m")), c20Float(), c20Key(nil))
	case 34:
		_, _ = tx.ZMembers(c20Bucket(bucketZSet))
	case 35:
		_, _ = tx.ZCard(c20Bucket(bucketZSet))
	case 36:
		_, _ = tx.ZCount(c20Bucket(bucketZSet), c20Float(), c20Float(), c20Opts())
	case 37:
		_, _ = tx.ZPopMax(c20Bucket(bucketZSet))
	case 38:
		_, _ = tx.ZPopMin(c20Bucket(bucketZSet))
	case 39:
		_, _ = tx.ZPeekMax(c20Bucket(bucketZSet))
	case 40:
		_, _ = tx.ZPeekMin(c20Bucket(bucketZSet))
	case 41:
		_, _ = tx.ZRangeByScore(c20Bucket(bucketZSet), c20Float(), c20Float(), c20Opts())
	case 42:
		_, _ = tx.ZRangeByRank(c20Bucket(bucketZSet), vNondetInt(), vNondetInt())
	case 43:
		_ = tx.ZRem(c20Bucket(bucketZSet), string(c20Key([]byte("m"))))
	case 44:
		_ = tx.ZRemRangeByRank(c20Bucket(bucketZSet), c20Int(), c20Int())
	case 45:
		_, _ = tx.ZRank(c20Bucket(bucketZSet), c20Key([]byte("m")))
	case 46:
		_, _ = tx.ZRevRank(c20Bucket(bucketZSet), c20Key([]byte("m")))
	case 47:
		_, _ = tx.ZScore(c20Bucket(bucketZSet), c20Key([]byte("m")))
	case 48:
		_, _ = tx.ZGetByKey(c20Bucket(bucketZSet), c20Key([]byte("m")))
	case 49:
		_, _ = tx.LRange(c20Bucket(bucketList), c20Key(x), c20Int(), c20Int())
	}
}

func c20Opts() *zset.GetByScoreRangeOptions {
	if vChoose(2) == 0 {
		return nil
	}
	return &zset.GetByScoreRangeOptions{Limit: vNondetInt(), ExcludeStart: vChoose(2) == 1, ExcludeEnd: vChoose(2) == 1}
}

func c20Populate(db *DB) {
	_ = db.Update(func(tx *Tx) error {
		_ = tx.Put("a", []byte("k"), []byte("v"), 0)
		_ = tx.Put("a", []byte("k2"), []byte("v2"), 0)
		_ = tx.RPush(bucketList, vDSKeys[0], []byte("v"), []byte("w"))
		_ = tx.SAdd(bucketSet, vDSKeys[0], []byte("v"))
		_ = tx.SAdd(bucketSet, vDSKeys[1], []byte("w"))
		_ = tx.ZAdd(bucketZSet, []byte("m"), 1, []byte("v"))
		_ = tx.ZAdd(bucketZSet, []byte("n"), 2, []byte("w"))
		return nil
	})
}

// params: mode, lo, hi (range of call numbers), state (0 open tx then commit, 1 finished tx, 2 closed db, 3 read-only tx)
func H_C20_TxCalls() {
	vSetup()
	defer vCleanup()
	mode := EntryIdxMode(vParam("mode"))
	db, err := Open(vOptsFull(vDir(), mode, FileIO, FileIO, 4096, false))
	if err != nil {
		vFail("c20.open")
		return
	}
	c20Populate(db)
	lo, hi := vParam("lo"), vParam("hi")
	n := lo + vChoose(hi-lo)
	vReach("c20.call")
	c20Simple = vParam("state") == 1 || vParam("state") == 2
	switch vParam("state") {
	case 0:
		tx, err := db.Begin(true)
		if err != nil {
			return
		}
		c20Call(tx, n)
		_ = tx.Commit() // a call that succeeded must not make Commit panic
		_ = db.Close()
	case 1:
		tx, err := db.Begin(true)
		if err != nil {
			return
		}
		if vChoose(2) == 0 {
			_ = tx.Commit()
		} else {
			_ = tx.Rollback()
		}
		c20Call(tx, n)
		_ = tx.Commit()
		_ = tx.Rollback()
	case 2:
		tx, err := db.Begin(vChoose(2) == 0)
		if err != nil {
			return
		}
		// the database is closed while the transaction object is still referenced elsewhere is not
		// possible (Close takes the write lock), so: finish, close, then call
		_ = tx.Rollback()
		_ = db.Close()
		c20Call(tx, n)
		_, e2 := db.Begin(true)
		vAssert("c20.begin-on-closed-db-errors", e2 != nil)
	case 3:
		tx, err := db.Begin(false)
		if err != nil {
			return
		}
		c20Call(tx, n)
		_ = tx.Commit()
	}
}

// DB-level calls in every state.
func H_C20_DBCalls() {
	vSetup()
	defer vCleanup()
	mode := EntryIdxMode(vChoose(3))
	dir := vDir()
	db, err := Open(vOptsFull(dir, mode, RWMode(vChoose(2)), FileIO, 64, false))
	if err != nil {
		vFail("c20.open")
		return
	}
	_ = db.Update(func(tx *Tx) error { return tx.Put("a", []byte("k"), []byte("v"), 0) })
	_ = db.Update(func(tx *Tx) error { return tx.Put("a", []byte("k2"), []byte("v"), 0) })
	closed := vChoose(2) == 1
	if closed {
		_ = db.Close()
	}
	vReach("c20.db-call")
	switch vChoose(6) {
	case 0:
		_ = db.Merge()
	case 1:
		_ = db.Update(nil)
	case 2:
		_ = db.View(nil)
	case 3:
		_ = db.Close()
	case 4:
		_ = db.Backup(vDir())
	case 5:
		_ = db.Update(func(tx *Tx) error { return tx.Put("a", []byte("k3"), []byte("v"), 0) })
		_ = db.View(func(tx *Tx) error { _, e := tx.Get("a", []byte("k")); return e })
	}
}

// Open with arbitrary scalar options must reject or tolerate them, not panic later.
func H_C20_OpenOptions() {
	vSetup()
	defer vCleanup()
	nodes := []int64{math.MinInt64, -1, 0, 1, 1023, 1024, math.MaxInt64}
	opt := Options{Dir: vDir(), EntryIdxMode: EntryIdxMode(vNondetInt()), RWMode: RWMode(vNondetInt()),
		StartFileLoadingMode: RWMode(vNondetInt()), NodeNum: nodes[vChoose(len(nodes))], SyncEnable: vChoose(2) == 1}
	// segment sizes around the interesting boundaries (0, negative, smaller than a header, one entry)
	segs := []int64{math.MinInt64, -1, 0, 1, 41, 46, 64}
	opt.SegmentSize = segs[vChoose(len(segs))]
	vReach("c20.open-options")
	db, err := Open(opt)
	if err != nil || db == nil {
		return
	}
	_ = db.Update(func(tx *Tx) error { return tx.Put("a", []byte("k"), []byte("v"), 0) })
	_ = db.View(func(tx *Tx) error { _, e := tx.Get("a", []byte("k")); return e })
	_ = db.Close()
}

// The three exported Tx methods of the sparse on-disk index (FindOnDisk, FindLeafOnDisk,
// FindTxIDOnDisk) take a file id and a node offset from the caller. On a sparse-mode database with
// sealed segments they are called with existing / missing file ids, node offsets on and off the node
// grid, and present / absent keys and transaction ids.
func H_C20_SparseCalls() {
	vSetup()
	defer vCleanup()
	db, err := Open(vOptsFull(vDir(), HintBPTSparseIdxMode, FileIO, FileIO, 100, false))
	if err != nil {
		vFail("c20.open")
		return
	}
	for i := 0; i < 5; i++ {
		k := []byte{'k', byte('0' + i)}
		_ = db.Update(func(tx *Tx) error { return tx.Put("a", k, []byte("v"), 0) })
	}
	fids := []uint64{0, 1, 7, math.MaxUint64, 1 << 63}
	offs := []uint64{0, 1, 8, 1 << 20, math.MaxUint64, 1 << 63}
	keys := [][]byte{[]byte("k0"), []byte("zz"), nil, {}}
	tx, err := db.Begin(vChoose(2) == 0)
	if err != nil {
		return
	}
	vReach("c20.sparse-call")
	fid, off := fids[vChoose(len(fids))], offs[vChoose(len(offs))]
	key := keys[vChoose(len(keys))]
	switch vChoose(3) {
	case 0:
		_, _ = tx.FindOnDisk(fid, off, key, getNewKey("a", key))
	case 1:
		_, _ = tx.FindLeafOnDisk(int64(fid), int64(off), key, getNewKey("a", key))
	case 2:
		_, _ = tx.FindTxIDOnDisk(fid, offs[vChoose(len(offs))])
	}
	_ = tx.Rollback()
	_ = db.Close()
}
