package nutsdb

import "github.com/xujiajun/nutsdb/ds/zset"

// Multi-structure scenario machinery shared by C08, C09, C10, C12, C13, C15, C16, C19, C20, C22:
// symbolic operations through the real Tx API, a full observation of the database through the public
// read API (Obs, DESIGN §4), and a comparison of two observations built as one formula.

const (
	opPut = iota
	opDelete
	opRPush
	opLPush
	opLPop
	opRPop
	opLRem
	opLSet
	opLTrim
	opSAdd
	opSRem
	opSPop
	opSMove
	opZAdd
	opZRem
	opZPopMax
	opZPopMin
	opZRemRange
	opPutTTL
	opNumKinds
)

var (
	vKVBuckets = []string{"a", "b"}
	vDSKeys    = [][]byte{[]byte("x"), []byte("y")}
	vScores    = []float64{0, 1, -1, 1.5}
	vSmallInts = []int{0, 1, -1, 2, -2}
)

const (
	bucketList = "L"
	bucketSet  = "S"
	bucketZSet = "Z"
)

type sOp struct {
	kind   int
	bucket string // kv bucket
	key    []byte // kv key / zset member key
	dsKey  []byte // list / set key
	dsKey2 []byte
	val    []byte
	n1, n2 int
	score  float64
	// results recorded at call time
	err    error
	ret    []byte
	retOK  bool
}

var profiles = map[int][]int{
	0: {opPut, opDelete, opPutTTL},                                       // kv
	1: {opRPush, opLPush, opLPop, opRPop, opLRem, opLSet, opLTrim},       // list
	2: {opSAdd, opSRem, opSPop, opSMove},                                 // set
	3: {opZAdd, opZRem, opZPopMax, opZPopMin, opZRemRange},               // zset
	4: {opPut, opRPush, opSAdd, opZAdd, opDelete, opLPop, opSRem, opZRem}, // mixed
	5: {opRPush, opLPop, opRPop},                                         // list pushes/pops
	6: {opPut, opDelete},                                                 // kv without TTL
}

// vConcreteArgs: draw keys from a small concrete set and values from a counter instead of symbolic
// bytes (used where the interesting quantifier is elsewhere, e.g. the crash point inside Merge).
// vTTL is the TTL of opPutTTL records (seconds).
var vTTL uint32 = 1

var vConcreteArgs bool
var vArgCounter byte

func argKey() []byte {
	if vConcreteArgs {
		return []byte{byte('k' + vChoose(2))}
	}
	return vBytes(1)
}

func argVal() []byte {
	if vConcreteArgs {
		vArgCounter++
		return []byte{'0' + vArgCounter}
	}
	return vBytes(1)
}

// genOp draws one operation of the given kind set with symbolic byte arguments and small concrete
// integers/scores (decimal encodings are exercised on concrete values, DESIGN §3.7).
func genOp(kinds []int) *sOp {
	o := &sOp{kind: kinds[vChoose(len(kinds))]}
	switch o.kind {
	case opPut, opDelete, opPutTTL:
		o.bucket = vKVBuckets[0]
		if !vConcreteArgs {
			o.bucket = vKVBuckets[vChoose(len(vKVBuckets))]
		}
		o.key = argKey()
		if o.kind != opDelete {
			o.val = argVal()
		}
	case opRPush, opLPush:
		o.dsKey = vDSKeys[0]
		o.val = argVal()
	case opLPop, opRPop:
		o.dsKey = vDSKeys[0]
	case opLRem:
		o.dsKey = vDSKeys[0]
		o.n1 = vSmallInts[vChoose(4)]
		o.val = argVal()
	case opLSet:
		o.dsKey = vDSKeys[0]
		o.n1 = vSmallInts[vChoose(2)]
		o.val = argVal()
	case opLTrim:
		o.dsKey = vDSKeys[0]
		o.n1 = vSmallInts[vChoose(2)]
		o.n2 = vSmallInts[1+vChoose(2)]
	case opSAdd, opSRem:
		o.dsKey = vDSKeys[vChoose(2)]
		o.val = argVal()
	case opSPop:
		o.dsKey = vDSKeys[0]
	case opSMove:
		o.dsKey, o.dsKey2 = vDSKeys[0], vDSKeys[1]
		o.val = argVal()
	case opZAdd:
		o.key = argKey()
		o.score = vScores[vChoose(len(vScores))]
		o.val = argVal()
	case opZRem:
		o.key = argKey()
	case opZRemRange:
		o.n1 = vSmallInts[1+vChoose(2)]
		o.n2 = vSmallInts[1+vChoose(3)]
	}
	return o
}

// applyOp calls the real Tx method; the error and the returned value are recorded in the op.
func applyOp(tx *Tx, o *sOp) error {
	o.ret, o.retOK = nil, false
	switch o.kind {
	case opPut:
		o.err = tx.Put(o.bucket, o.key, o.val, 0)
	case opPutTTL:
		o.err = tx.Put(o.bucket, o.key, o.val, vTTL)
	case opDelete:
		o.err = tx.Delete(o.bucket, o.key)
	case opRPush:
		o.err = tx.RPush(bucketList, o.dsKey, o.val)
	case opLPush:
		o.err = tx.LPush(bucketList, o.dsKey, o.val)
	case opLPop:
		o.ret, o.err = tx.LPop(bucketList, o.dsKey)
		o.retOK = o.err == nil
	case opRPop:
		o.ret, o.err = tx.RPop(bucketList, o.dsKey)
		o.retOK = o.err == nil
	case opLRem:
		_, o.err = tx.LRem(bucketList, o.dsKey, o.n1, o.val)
	case opLSet:
		o.err = tx.LSet(bucketList, o.dsKey, o.n1, o.val)
	case opLTrim:
		o.err = tx.LTrim(bucketList, o.dsKey, o.n1, o.n2)
	case opSAdd:
		o.err = tx.SAdd(bucketSet, o.dsKey, o.val)
	case opSRem:
		o.err = tx.SRem(bucketSet, o.dsKey, o.val)
	case opSPop:
		o.ret, o.err = tx.SPop(bucketSet, o.dsKey)
		o.retOK = o.err == nil
	case opSMove:
		_, o.err = tx.SMoveByOneBucket(bucketSet, o.dsKey, o.dsKey2, o.val)
	case opZAdd:
		o.err = tx.ZAdd(bucketZSet, o.key, o.score, o.val)
	case opZRem:
		o.err = tx.ZRem(bucketZSet, string(o.key))
	case opZPopMax:
		var n *zset.SortedSetNode
		n, o.err = tx.ZPopMax(bucketZSet)
		if o.err == nil && n != nil {
			o.ret, o.retOK = []byte(n.Key()), true
		}
	case opZPopMin:
		var n *zset.SortedSetNode
		n, o.err = tx.ZPopMin(bucketZSet)
		if o.err == nil && n != nil {
			o.ret, o.retOK = []byte(n.Key()), true
		}
	case opZRemRange:
		o.err = tx.ZRemRangeByRank(bucketZSet, o.n1, o.n2)
	}
	return o.err
}

// ---- observation ----

type obsItem struct {
	tag   string
	err   bool
	seq   [][]byte // ordered result (pairs are flattened key,value,...)
	set   [][]byte // unordered result
	nums  []int
}

// observe reads everything through the public Tx API. kvKeys is the universe of keys probed with Get.
func observe(db *DB, kvKeys [][]byte, structures bool) []obsItem {
	var out []obsItem
	_ = db.View(func(tx *Tx) error {
		for _, b := range vKVBuckets {
			es, err := tx.GetAll(b)
			it := obsItem{tag: "getall:" + b, err: err != nil}
			if err == nil {
				for _, e := range es {
					if e == nil {
						// a successful scan must not contain holes
						vFail("obs.nil-entry-in-scan-result")
						it.seq = append(it.seq, []byte("<nil>"), []byte("<nil>"))
						continue
					}
					it.seq = append(it.seq, e.Key, e.Value)
				}
			}
			out = append(out, it)
			for i, k := range kvKeys {
				e, err := tx.Get(b, k)
				it := obsItem{tag: "get:" + b + ":" + string(rune('0'+i)), err: err != nil}
				if err == nil && e != nil {
					it.seq = append(it.seq, e.Value)
				}
				out = append(out, it)
			}
		}
		if !structures {
			return nil
		}
		for _, k := range vDSKeys {
			l, err := tx.LRange(bucketList, k, 0, -1)
			it := obsItem{tag: "lrange:" + string(k), err: err != nil}
			if err == nil {
				it.seq = l
			}
			out = append(out, it)
			m, err := tx.SMembers(bucketSet, k)
			it = obsItem{tag: "smembers:" + string(k), err: err != nil}
			if err == nil {
				it.set = m
			}
			out = append(out, it)
			c, err := tx.SCard(bucketSet, k)
			if err != nil {
				c = 0
			}
			out = append(out, obsItem{tag: "scard:" + string(k), err: err != nil, nums: []int{c}})
		}
		nodes, err := tx.ZRangeByRank(bucketZSet, 1, -1)
		it := obsItem{tag: "zrange", err: err != nil}
		if err == nil {
			for _, n := range nodes {
				it.seq = append(it.seq, []byte(n.Key()), n.Value)
				it.nums = append(it.nums, vScoreIdx(float64(n.Score())))
			}
		}
		out = append(out, it)
		c, err := tx.ZCard(bucketZSet)
		out = append(out, obsItem{tag: "zcard", err: err != nil, nums: []int{c}})
		return nil
	})
	return out
}

func vScoreIdx(f float64) int {
	for i, s := range vScores {
		if s == f {
			return i
		}
	}
	return -1
}

// vObsStrict: also require that the same reads fail on both sides. It is the default: the two sides of
// an observation comparison run the same code on the same history (before Close vs after Open, a
// transaction that must have no effect, a twin database), so "error" and "empty" must not swap. The
// harnesses that compare different implementations or a merged log switch it off and say why.
var vObsStrict = true

// obsSame builds one formula: the two observations agree. "Error" and "empty" are the same outcome
// (DESIGN §4.1: wherever a result is empty the API may report an error instead).
func obsSame(a, b []obsItem) bool {
	if len(a) != len(b) {
		return false
	}
	ok := true
	for i := range a {
		x, y := a[i], b[i]
		if x.tag != y.tag || len(x.seq) != len(y.seq) || len(x.set) != len(y.set) || len(x.nums) != len(y.nums) {
			return false
		}
		if vObsStrict && x.err != y.err {
			return false
		}
		for j := range x.seq {
			if len(x.seq[j]) != len(y.seq[j]) {
				return false
			}
			ok = vAnd(ok, vEqBytes(x.seq[j], y.seq[j]))
		}
		for j := range x.nums {
			ok = vAnd(ok, x.nums[j] == y.nums[j])
		}
		for _, m := range x.set {
			found := false
			for _, n := range y.set {
				if len(m) == len(n) {
					found = vOr(found, vEqBytes(m, n))
				}
			}
			ok = vAnd(ok, found)
		}
	}
	return ok
}

// obsDescribe records a compact description of an observation for replays / evidence.
func obsDescribe(tag string, o []obsItem) {
	for _, it := range o {
		n := len(it.seq) + len(it.set)
		if it.err {
			n = -1
		}
		vObserveInt(tag+"/"+it.tag, n)
	}
}

// runTxs applies the transactions through Update. Errors of single operations are ignored (the
// transaction goes on), so "calls that returned success" followed by commit-time no-ops are covered.
func runTxs(db *DB, txs [][]*sOp) []error {
	var errs []error
	for _, ops := range txs {
		err := db.Update(func(tx *Tx) error {
			for _, o := range ops {
				_ = applyOp(tx, o)
			}
			return nil
		})
		errs = append(errs, err)
	}
	return errs
}

// preTxs returns n concrete single-write transactions that overwrite one key ("p") in bucket "a" with
// the values 0,1,2,... and, every third one, push onto the list x. With a segment that holds one record
// they spread over n data files, so that file ids reach two digits and the order in which files are
// replayed on open (numeric, not by name) decides what is read back.
func preTxs(n int, lists bool) [][]*sOp {
	var txs [][]*sOp
	for i := 0; i < n; i++ {
		o := &sOp{kind: opPut, bucket: vKVBuckets[0], key: []byte("p"), val: []byte{byte('A' + i)}}
		ops := []*sOp{o}
		if lists && i%3 == 0 {
			ops = append(ops, &sOp{kind: opRPush, dsKey: vDSKeys[0], val: []byte{byte('a' + i)}})
		}
		txs = append(txs, ops)
	}
	return txs
}

func kvKeysOf(txs [][]*sOp) [][]byte {
	var ks [][]byte
	for _, ops := range txs {
		for _, o := range ops {
			if o.kind == opPut || o.kind == opDelete || o.kind == opPutTTL {
				ks = append(ks, o.key)
			}
		}
	}
	return ks
}

// genTxs draws ntx transactions of 1..maxOps operations from the profile.
func genTxs(profile, ntx, maxOps int) [][]*sOp {
	kinds := profiles[profile]
	txs := make([][]*sOp, ntx)
	for i := range txs {
		n := 1 + vChoose(maxOps)
		for j := 0; j < n; j++ {
			txs[i] = append(txs[i], genOp(kinds))
		}
	}
	return txs
}

func vOptsFull(dir string, mode EntryIdxMode, rw, load RWMode, seg int64, sync bool) Options {
	return Options{Dir: dir, EntryIdxMode: mode, RWMode: rw, SegmentSize: seg, NodeNum: 1, SyncEnable: sync, StartFileLoadingMode: load}
}

// seedState commits a fixed-shape base state with symbolic contents (no choices, so it adds no paths):
// two list elements, one member in each of the two sets, two sorted-set members, one key/value pair.
// It returns the key/value keys written.
func seedState(db *DB, profile int) [][]byte {
	txs, keys := genSeed(profile)
	runTxs(db, txs)
	return keys
}

// genSeed draws the seed transactions once, so that a twin database can receive the same ones.
func genSeed(profile int) ([][]*sOp, [][]byte) {
	var keys [][]byte
	mk := func(kind int, set func(o *sOp)) *sOp {
		o := &sOp{kind: kind}
		set(o)
		return o
	}
	var txs [][]*sOp
	switch profile {
	case 0, 6:
		k := argKey()
		keys = append(keys, k)
		txs = append(txs, []*sOp{mk(opPut, func(o *sOp) { o.bucket, o.key, o.val = vKVBuckets[0], k, argVal() })})
	case 1, 5:
		txs = append(txs, []*sOp{mk(opRPush, func(o *sOp) { o.dsKey, o.val = vDSKeys[0], argVal() }),
			mk(opRPush, func(o *sOp) { o.dsKey, o.val = vDSKeys[0], argVal() })})
	case 2, 7:
		txs = append(txs, []*sOp{mk(opSAdd, func(o *sOp) { o.dsKey, o.val = vDSKeys[0], argVal() }),
			mk(opSAdd, func(o *sOp) { o.dsKey, o.val = vDSKeys[1], argVal() })})
	case 3, 8, 9:
		txs = append(txs, []*sOp{mk(opZAdd, func(o *sOp) { o.key, o.score, o.val = argKey(), vScores[0], argVal() }),
			mk(opZAdd, func(o *sOp) { o.key, o.score, o.val = argKey(), vScores[1], argVal() })})
	case 4:
		k := argKey()
		keys = append(keys, k)
		txs = append(txs, []*sOp{mk(opPut, func(o *sOp) { o.bucket, o.key, o.val = vKVBuckets[0], k, argVal() }),
			mk(opRPush, func(o *sOp) { o.dsKey, o.val = vDSKeys[0], argVal() }),
			mk(opSAdd, func(o *sOp) { o.dsKey, o.val = vDSKeys[0], argVal() }),
			mk(opZAdd, func(o *sOp) { o.key, o.score, o.val = argKey(), vScores[0], argVal() })})
	}
	return txs, keys
}

func init() {
	profiles[7] = []int{opSAdd, opSRem, opSMove}
	profiles[8] = []int{opZAdd, opZRem, opZPopMax}
}

func init() {
	profiles[9] = []int{opZAdd, opZRem}
}
