package nutsdb

// C10 / C11 / C09 — crash atomicity. A twin database runs the same symbolic workload without a crash
// and records the observation after every transaction. The crashing run is armed so that the modelled
// process dies at exactly one file-mutation point (any of them; an in-flight segment write is cut at any
// byte). After the crash the real Open must succeed (C09) and the observation must equal the twin's
// state after the last transaction whose Commit returned, or that state plus the in-flight transaction
// in full (C10). With power=1 the crash is a power loss: every file independently keeps its content
// or reverts to its content at its last sync (C11, SyncEnable=true).
//
// Native replay: the post-crash directory image, evaluated under the solver's model, is written to a
// temp dir; the twin runs natively; the same assertions run on the real Open of that image.

// params: mode, rw, sync, power, profile, ntx, maxops, msmode (1: transactions may share a millisecond)
func H_C10_Crash() {
	vSetup()
	defer vCleanup()
	mode, rw := EntryIdxMode(vParam("mode")), RWMode(vParam("rw"))
	sync := vParam("sync") == 1
	power := vParam("power") == 1
	segs := []int64{4096, 60}
	seg := segs[vChoose(vParam("nseg"))]
	// pre > 0: concrete one-record transactions first, so that file ids reach two digits
	preT := preTxs(vParam("pre"), false)
	vConcreteArgs, vArgCounter = len(preT) > 0, 0 // many-segment configurations: concrete keys, the file order is the subject
	symT := genTxs(vParam("profile"), vParam("ntx"), vParam("maxops"))
	txs := append(append([][]*sOp{}, preT...), symT...)
	keys := append(kvKeysOf(preT[:min1(len(preT))]), kvKeysOf(symT)...)
	if len(preT) > 0 {
		seg = 60 // one record per data file
	}
	structs := mode == HintKeyValAndRAMIdxMode

	// twin: no crash
	optA := vOptsFull(vDir(), mode, rw, rw, seg, sync)
	dbA, err := Open(optA)
	if err != nil {
		vFail("c10.open-twin")
		return
	}
	states := [][]obsItem{observe(dbA, keys, structs)}
	for i := range txs {
		runTxs(dbA, txs[i:i+1])
		states = append(states, observe(dbA, keys, structs))
	}
	dbA.Close()

	// crashing run
	dirB := vDir()
	optB := vOptsFull(dirB, mode, rw, rw, seg, sync)
	crashedAt := len(txs) // index of the in-flight transaction; len(txs): died after the last commit returned
	if vEngine() {
		vPowerLossMode(power)
		vFewCuts(vParam("cuts") == 1)
		vSetMsMode(vParam("msmode"))
		alive := vTry(func() {
			dbB, err := Open(optB)
			if err != nil {
				vFail("c10.open-b")
				return
			}
			// many-segment configurations: crash points are armed for the last two concrete
			// transactions and everything after them (earlier ones repeat the small histories)
			armFrom := 0
			if len(preT) > 2 {
				armFrom = len(preT) - 2
			}
			for i := range txs {
				if i == armFrom {
					vArm()
				}
				crashedAt = i
				runTxs(dbB, txs[i:i+1])
			}
			crashedAt = len(txs)
			vDisarm()
		})
		vDisarm()
		if alive && !power {
			// no crash point was chosen on this path: nothing to check here (the clean path is C08's)
			vReach("c10.no-crash")
			vObserveInt("crashedAt", -1)
			return
		}
		// power model: a path without a crash point ends with the power failing after the last Commit
		// returned (crashedAt == len(txs)): everything committed with SyncEnable must survive
		if power {
			vPowerFail(dirB)
		}
		vPowerLossMode(false)
		vFewCuts(false)
		vSetMsMode(0)
		vImageSave(dirB)
		vObserveInt("crashedAt", crashedAt)
	} else {
		crashedAt = vPredictedInt("crashedAt")
		if crashedAt < 0 {
			vObserveInt("crashedAt", -1)
			return
		}
		vImageLoad(dirB)
		vImageObserve(dirB)
		vObserveInt("crashedAt", crashedAt)
	}
	vReach("c10.crashed")
	// known finding (recorded per property): the sparse index files are written at rotation and at the
	// end of a commit without any ordering against the data files, so a crash in sparse mode can leave
	// them missing or half-written
	sparse := mode == HintBPTSparseIdxMode
	vKnown("KF-C09-sparse-crash", sparse)
	vKnown("KF-C10-sparse-crash", sparse)
	vKnown("KF-C11-sparse-crash", sparse)
	db2, err := Open(optB)
	vAssert("c09.open-after-crash", err == nil)
	if err != nil {
		return
	}
	o := observe(db2, keys, structs)
	obsDescribe("recovered", o)
	before := states[crashedAt]
	after := before
	if crashedAt < len(txs) {
		after = states[crashedAt+1]
	}
	vAssert("c10.committed-kept-and-inflight-atomic", vOr(obsSame(o, before), obsSame(o, after)))
	if vParam("merge") == 1 && mode != HintBPTSparseIdxMode {
		// C15: records of the transaction that never committed are still in the segment; a Merge after
		// recovery must not resurrect them
		_ = db2.Merge()
		o2 := observe(db2, keys, structs)
		obsDescribe("merged", o2)
		vAssert("c15.merge-after-crash-resurrects-nothing", obsSame(o, o2))
	}
	db2.Close()
}

// H_C10_TxIDs (X1): transaction ids must be pairwise distinct even when transactions begin within the
// same millisecond (the clock is symbolic and only non-decreasing). Recovery identifies committed
// transactions by id, so a shared id lets a failed transaction ride on another one's commit marker.
func H_C10_TxIDs() {
	vSetup()
	defer vCleanup()
	db, err := Open(vOptsFull(vDir(), HintKeyValAndRAMIdxMode, FileIO, FileIO, 4096, false))
	if err != nil {
		vFail("c10.open")
		return
	}
	vSetMsMode(1)
	n := vParam("n")
	var ids []uint64
	for i := 0; i < n; i++ {
		tx, err := db.Begin(vChoose(2) == 0)
		if err != nil {
			vFail("c10.begin")
			return
		}
		ids = append(ids, tx.id)
		_ = tx.Rollback()
	}
	vSetMsMode(0)
	vReach("c10.txids")
	ok := true
	for i := range ids {
		for j := 0; j < i; j++ {
			ok = vAnd(ok, ids[i] != ids[j])
		}
	}
	vAssert("c10.txids-distinct", ok)
	db.Close()
}
