//go:build gosmt

package nutsdb

import "sync"

// Engine side of the scenario environment (see env_native.go for the native side).

var vDirN int

// vSetup starts a scenario: empty file system, symbolic wall clock in a realistic range,
// transaction ids from a strictly increasing millisecond clock unless vMsMode is changed.
func vSetup() {
	vfsReset()
	vClk = vNondetInt64()
	vAssume(vAnd(vClk >= 1<<30, vClk < 1<<33))
	vMsMode = 0
}

// vNow is the current wall-clock second as the code under test sees it.
func vNow() int64 { return vClk }

// vAdvance moves the wall clock forward by d seconds (d small, non-negative).
func vAdvance(d int64) { vClk += d }

// vDir returns a fresh database directory.
func vDir() string {
	vDirN++
	return "/vdb" + string(rune('0'+vDirN))
}

func vCleanup() {}

// lock-discipline tracing (intercepted by the engine)
func vShare(root interface{})            {}
func vFileAccess(write bool)             {}
func vLockHeld(mu *sync.RWMutex) int     { return 0 }
