package zset

// C07 Z1 — single-step lemmas on ds/zset. The pre-state is built by the real Put from n members with
// symbolic finite scores, symbolic keys (the empty key included) and symbolic node levels. After every
// step the structural invariant of the skip list is asserted, and one operation or query with symbolic
// arguments is compared with a model ordered by (score, key).

func b2i(b bool) int { return vIte(b, 1, 0) }

type mem struct {
	k string
	s SCORE
}

func fin(s SCORE) bool { return vAnd(s > -1e300, s < 1e300) }

func less(a, b mem) bool {
	return vOr(a.s < b.s, vAnd(a.s == b.s, vLessStr(a.k, b.k)))
}

func mkKey() string {
	if vChoose(2) == 0 {
		return ""
	}
	return string(vBytes(1))
}

// mkScore: scores are finite. By default they are integer-valued (int32 range, exactly representable),
// which keeps every order and tie pattern reachable while the comparisons are decided in the
// bit-vector theory; with param "fscore"=1 they are arbitrary finite float64 (slow: FP theory).
func mkScore() SCORE {
	if vParam("fscore") == 1 {
		s := SCORE(vNondetFloat64())
		vAssume(fin(s))
		return s
	}
	return SCORE(float64(vNondetInt32()))
}

func putLvl(ss *SortedSet, k string, s SCORE, v []byte) {
	vSetLevel(1 + vChoose(vParam("lmax")))
	ss.Put(k, s, v)
}

// build creates a sorted set of n members with pairwise distinct keys.
func build(n int) (*SortedSet, []mem) {
	ss := New()
	var ms []mem
	emptyAt := vChoose(n + 1) // keys are distinct, so at most one member has the empty key
	for i := 0; i < n; i++ {
		k := ""
		if i != emptyAt {
			k = string(vBytes(1))
		}
		for _, m := range ms {
			vAssume(vNot(vEqStr(m.k, k)))
		}
		s := mkScore()
		putLvl(ss, k, s, nil)
		ms = append(ms, mem{k, s})
	}
	return ss, ms
}

func rankOf(ms []mem, i int) int {
	r := 1
	for j := range ms {
		if j != i {
			r += b2i(less(ms[j], ms[i]))
		}
	}
	return r
}

// chain returns the level-0 chain and asserts the structural invariant.
func chain(id string, ss *SortedSet, wantLen int) []*SortedSetNode {
	var nodes []*SortedSetNode
	x := ss.header.level[0].forward
	guard := 0
	for x != nil && guard < 16 {
		nodes = append(nodes, x)
		x = x.level[0].forward
		guard++
	}
	vAssert(id+".inv.length", vAnd(len(nodes) == wantLen, int(ss.length) == wantLen))
	vAssert(id+".inv.dict-size", len(ss.Dict) == wantLen)
	if len(nodes) != wantLen {
		return nodes
	}
	ok := true
	for i, nd := range nodes {
		if i > 0 {
			p := nodes[i-1]
			ok = vAnd(ok, less(mem{p.key, p.score}, mem{nd.key, nd.score}))
		}
	}
	vAssert(id+".inv.sorted", ok)
	// backward links, tail
	links := true
	for i, nd := range nodes {
		if i == 0 {
			links = links && nd.backward == nil
		} else {
			links = links && nd.backward == nodes[i-1]
		}
	}
	if len(nodes) == 0 {
		links = links && ss.tail == nil
	} else {
		links = links && ss.tail == nodes[len(nodes)-1]
	}
	vAssert(id+".inv.backward-tail", links)
	// spans: at every level in use, following forward from the header, span = rank distance
	pos := map[*SortedSetNode]int{ss.header: 0}
	for i, nd := range nodes {
		pos[nd] = i + 1
	}
	spans := ss.level >= 1 && ss.level <= SkipListMaxLevel
	for l := 0; l < ss.level && spans; l++ {
		x := ss.header
		cnt := 0
		for x != nil && cnt < 20 {
			cnt++
			if l >= len(x.level) {
				spans = false
				break
			}
			f := x.level[l].forward
			if f != nil {
				pf, isNode := pos[f]
				if !isNode || int(x.level[l].span) != pf-pos[x] {
					spans = false
				}
			}
			x = f
		}
	}
	vAssert(id+".inv.spans", spans)
	return nodes
}

// sameContent: the chain is exactly the model members in (score,key) order.
func sameContent(id string, nodes []*SortedSetNode, ms []mem, live []bool) {
	cnt := 0
	for i := range ms {
		cnt += b2i(live[i])
	}
	vAssert(id+".count", len(nodes) == cnt)
	ok := true
	for i := range ms {
		r := 1
		for j := range ms {
			if j != i {
				r += b2i(vAnd(live[j], less(ms[j], ms[i])))
			}
		}
		for p, nd := range nodes {
			ok = vAnd(ok, vImplies(vAnd(live[i], r == p+1), vAnd(vEqStr(nd.key, ms[i].k), nd.score == ms[i].s)))
		}
	}
	vAssert(id+".order", ok)
}

func allLive(n int) []bool {
	l := make([]bool, n)
	for i := range l {
		l[i] = true
	}
	return l
}

func isChainNode(nodes []*SortedSetNode, x *SortedSetNode) bool {
	for _, nd := range nodes {
		if nd == x {
			return true
		}
	}
	return false
}

func H_C07_Build() {
	n := vChoose(vParam("maxn") + 1)
	ss, ms := build(n)
	vReach("build.done")
	nodes := chain("build", ss, n)
	sameContent("build", nodes, ms, allLive(n))
}

func H_C07_Put() {
	n := vChoose(vParam("maxn") + 1)
	ss, ms := build(n)
	chain("put.pre", ss, n)
	s := mkScore()
	val := vBytes(1)
	vReach("put.call")
	which := vChoose(n + 1)
	if which == n {
		// a key that is not a member
		k := mkKey()
		for _, m := range ms {
			vAssume(vNot(vEqStr(m.k, k)))
		}
		putLvl(ss, k, s, val)
		ms = append(ms, mem{k, s})
		nodes := chain("put.new", ss, n+1)
		sameContent("put.new", nodes, ms, allLive(n+1))
		nd := ss.GetByKey(k)
		vAssert("put.new.value", vAnd(nd != nil, nd != nil && vEqBytes(nd.Value, val)))
		return
	}
	// an existing member: same or changed score
	putLvl(ss, ms[which].k, s, val)
	ms[which].s = s
	nodes := chain("put.update", ss, n)
	sameContent("put.update", nodes, ms, allLive(n))
	nd := ss.GetByKey(ms[which].k)
	vAssert("put.update.value", vAnd(nd != nil, nd != nil && vEqBytes(nd.Value, val)))
}

func H_C07_Remove() {
	n := vChoose(vParam("maxn") + 1)
	ss, ms := build(n)
	vReach("remove.call")
	live := allLive(n)
	switch vChoose(3) {
	case 0:
		which := vChoose(n + 1)
		if which == n {
			k := mkKey()
			for _, m := range ms {
				vAssume(vNot(vEqStr(m.k, k)))
			}
			r := ss.Remove(k)
			vAssert("remove.nonmember-nil", r == nil)
		} else {
			r := ss.Remove(ms[which].k)
			vAssert("remove.returns-node", vAnd(r != nil, r != nil && vAnd(vEqStr(r.key, ms[which].k), r.score == ms[which].s)))
			live[which] = false
		}
	case 1:
		r := ss.PopMin()
		if n == 0 {
			vAssert("popmin.empty-nil", r == nil)
		} else {
			vAssert("popmin.non-nil", r != nil)
			if r != nil {
				ok := true
				for i := range ms {
					isMin := rankOf(ms, i) == 1
					ok = vAnd(ok, vImplies(isMin, vAnd(vEqStr(r.key, ms[i].k), r.score == ms[i].s)))
					live[i] = vNot(isMin)
				}
				vAssert("popmin.is-minimum", ok)
			}
		}
	default:
		r := ss.PopMax()
		if n == 0 {
			vAssert("popmax.empty-nil", r == nil)
		} else {
			vAssert("popmax.non-nil", r != nil)
			if r != nil {
				ok := true
				for i := range ms {
					isMax := rankOf(ms, i) == n
					ok = vAnd(ok, vImplies(isMax, vAnd(vEqStr(r.key, ms[i].k), r.score == ms[i].s)))
					live[i] = vNot(isMax)
				}
				vAssert("popmax.is-maximum", ok)
			}
		}
	}
	cnt := 0
	for i := range live {
		cnt += b2i(live[i])
	}
	// the chain length is concrete on this path; the model count must agree with it
	nodes := chain("remove.post", ss, int(ss.length))
	vAssert("remove.post.model-count", len(nodes) == cnt)
	sameContent("remove.post", nodes, ms, live)
}

// sanitize mirrors the documented rank conventions: negative counts from the end (-1 = last),
// values at or below 0 clamp to 1.
func sanitize(i, n int) int {
	j := vIte(i < 0, n+i+1, i)
	return vIte(j <= 0, 1, j)
}

func H_C07_RankRange() {
	n := vChoose(vParam("maxn") + 1)
	ss, ms := build(n)
	start, end := vNondetInt(), vNondetInt()
	remove := vChoose(2) == 1
	vReach("rankrange.call")
	got := ss.GetByRankRange(start, end, remove)
	s1, e1 := sanitize(start, n), sanitize(end, n)
	rev := s1 > e1
	lo := vIte(rev, e1, s1)
	hi := vIte(rev, s1, e1)
	hic := vIte(hi > n, n, hi)
	cnt := vIte(lo > n, 0, hic-lo+1)
	vAssert("rankrange.count", len(got) == cnt)
	ok := true
	for j, nd := range got {
		want := vIte(rev, hic-j, lo+j)
		exists := false
		for i := range ms {
			is := rankOf(ms, i) == want
			exists = vOr(exists, is)
			ok = vAnd(ok, vImplies(is, vAnd(vEqStr(nd.key, ms[i].k), nd.score == ms[i].s)))
		}
		ok = vAnd(ok, exists)
	}
	vAssert("rankrange.elements", ok)
	live := allLive(n)
	if remove {
		for i := range ms {
			r := rankOf(ms, i)
			live[i] = vNot(vAnd(r >= lo, r <= hi))
		}
	}
	nodes := chain("rankrange.post", ss, int(ss.length))
	sameContent("rankrange.post", nodes, ms, live)
	if !remove {
		m := true
		for _, nd := range got {
			m = m && isChainNode(nodes, nd)
		}
		vAssert("rankrange.only-members", m)
	}
}

func H_C07_ScoreRange() {
	n := vChoose(vParam("maxn") + 1)
	ss, ms := build(n)
	a, b := mkScore(), mkScore()
	var opt *GetByScoreRangeOptions
	exS, exE := false, false
	limit := 0
	if vChoose(2) == 1 {
		exS, exE = vChoose(2) == 1, vChoose(2) == 1
		limit = vNondetInt()
		opt = &GetByScoreRangeOptions{Limit: limit, ExcludeStart: exS, ExcludeEnd: exE}
	}
	vReach("scorerange.call")
	got := ss.GetByScoreRange(a, b, opt)
	nodes := chain("scorerange.post", ss, n)
	mOnly := true
	for _, nd := range got {
		mOnly = mOnly && isChainNode(nodes, nd)
	}
	vAssert("scorerange.only-members", mOnly)
	rev := a > b
	// model: reverse swaps the bounds and their exclusion flags
	var inr []bool
	cnt := 0
	for i := range ms {
		s := ms[i].s
		var in bool
		if exS {
			if exE {
				in = vOr(vAnd(vNot(rev), vAnd(s > a, s < b)), vAnd(rev, vAnd(s < a, s > b)))
			} else {
				in = vOr(vAnd(vNot(rev), vAnd(s > a, s <= b)), vAnd(rev, vAnd(s < a, s >= b)))
			}
		} else {
			if exE {
				in = vOr(vAnd(vNot(rev), vAnd(s >= a, s < b)), vAnd(rev, vAnd(s <= a, s > b)))
			} else {
				in = vOr(vAnd(vNot(rev), vAnd(s >= a, s <= b)), vAnd(rev, vAnd(s <= a, s >= b)))
			}
		}
		inr = append(inr, in)
		cnt += b2i(in)
	}
	want := vIte(vAnd(limit > 0, limit < cnt), limit, cnt)
	vAssert("scorerange.count", len(got) == want)
	ok := true
	for j, nd := range got {
		for i := range ms {
			// position of member i among the in-range members, ascending or descending
			asc, desc := 1, 1
			for l := range ms {
				if l != i {
					asc += b2i(vAnd(inr[l], less(ms[l], ms[i])))
					desc += b2i(vAnd(inr[l], less(ms[i], ms[l])))
				}
			}
			p := vIte(rev, desc, asc)
			ok = vAnd(ok, vImplies(vAnd(inr[i], p == j+1), vAnd(vEqStr(nd.key, ms[i].k), nd.score == ms[i].s)))
		}
	}
	vAssert("scorerange.elements", ok)
	sameContent("scorerange.state", nodes, ms, allLive(n))
}

func H_C07_Queries() {
	n := vChoose(vParam("maxn") + 1)
	ss, ms := build(n)
	vReach("queries.call")
	nodes := chain("queries.pre", ss, n)
	which := vChoose(n + 1)
	var k string
	isMem := which < n
	if isMem {
		k = ms[which].k
	} else {
		k = mkKey()
		for _, m := range ms {
			vAssume(vNot(vEqStr(m.k, k)))
		}
	}
	switch vChoose(6) {
	case 0:
		r := ss.FindRank(k)
		if isMem {
			vAssert("findrank.member", r == rankOf(ms, which))
		} else {
			vAssert("findrank.nonmember-zero", r == 0)
		}
	case 1:
		r := ss.FindRevRank(k)
		if isMem {
			vAssert("findrevrank.member", r == n-rankOf(ms, which)+1)
		} else {
			vAssert("findrevrank.nonmember-zero", r == 0)
		}
	case 2:
		nd := ss.GetByKey(k)
		if isMem {
			vAssert("getbykey.member", vAnd(nd != nil, nd != nil && vAnd(vEqStr(nd.key, k), nd.score == ms[which].s)))
			vAssert("getbykey.is-node", isChainNode(nodes, nd))
		} else {
			vAssert("getbykey.nonmember-nil", nd == nil)
		}
	case 3:
		rk := vNondetInt()
		nd := ss.GetByRank(rk, false)
		r1 := sanitize(rk, n)
		if nd == nil {
			vAssert("getbyrank.nil-only-out-of-range", r1 > n)
		} else {
			ok := isChainNode(nodes, nd)
			for i := range ms {
				ok = vAnd(ok, vImplies(rankOf(ms, i) == r1, vAnd(vEqStr(nd.key, ms[i].k), nd.score == ms[i].s)))
			}
			vAssert("getbyrank.node", vAnd(ok, r1 <= n))
		}
	case 4:
		mn, mx := ss.PeekMin(), ss.PeekMax()
		if n == 0 {
			vAssert("peek.empty", mn == nil && mx == nil)
		} else {
			vAssert("peek.non-nil", mn != nil && mx != nil)
			if mn != nil && mx != nil {
				ok := vAnd(isChainNode(nodes, mn), isChainNode(nodes, mx))
				for i := range ms {
					r := rankOf(ms, i)
					ok = vAnd(ok, vImplies(r == 1, vEqStr(mn.key, ms[i].k)))
					ok = vAnd(ok, vImplies(r == n, vEqStr(mx.key, ms[i].k)))
				}
				vAssert("peek.min-max", ok)
			}
		}
	default:
		vAssert("size", ss.Size() == n)
	}
	post := chain("queries.post", ss, n)
	sameContent("queries.state", post, ms, allLive(n))
}
