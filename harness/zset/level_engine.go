//go:build gosmt

package zset

// Skip-list levels are symbolic: randomLevel (geometric, math/rand) is replaced by a level chosen by
// the harness (vChoose), so the solver explores every level layout within the bound.

var vNextLevel = 1

func vSetLevel(l int) { vNextLevel = l }

//gosmt:replace github.com/xujiajun/nutsdb/ds/zset.randomLevel
func vRandomLevelStub() int { return vNextLevel }
