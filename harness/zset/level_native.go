//go:build !gosmt

package zset

import "math/rand"

// vSetLevel makes the next call of the real randomLevel return l, by searching a math/rand seed.
func vSetLevel(l int) {
	for seed := int64(1); seed < 1<<22; seed++ {
		rand.Seed(seed)
		if randomLevel() == l {
			rand.Seed(seed)
			return
		}
	}
	panic("vSetLevel: no seed found")
}
