#!/usr/bin/env python3
"""Generates MANIFEST.json from the table below (kept here so the manifest stays consistent)."""
import json
claimed = {
 "C01": ("KV reads vs ordered map with TTL: B+ tree single-step lemmas (symbolic keys, real Insert/Find/Range/All/PrefixScan) and symbolic write histories through the real Open/Update/View over the modelled file system", "§5 C01"),
 "C02": ("sparse-mode KV reads vs ordered map with TTL: symbolic single-bucket histories through the real Update/View with segment rotations (on-disk B+ tree index files, root index, bucket metadata on the modelled file system)", "§5 C02"),
 "C03": ("PrefixScan / PrefixSearchScan with symbolic offset and limit over symbolic keys with live, deleted and expired records against the paging model", "§5 C03"),
 "C04": ("bucket isolation with adversarial (symbolic) bucket names and keys: a write to bucket A must not change any read of bucket B, for KV in all index modes and for list / set / sorted-set buckets", "§5 C04"),
 "C05": ("list single-step lemmas from arbitrary small states with fully symbolic 64-bit indexes and counts, against a Redis-style model", "§5 C05"),
 "C06": ("set single-step lemmas from arbitrary small states with symbolic members against a mathematical-set model", "§5 C06"),
 "C07": ("skip-list single-step lemmas with symbolic scores, keys and node levels: structural invariant plus every query against a (score,key)-ordered model", "§5 C07"),
 "C08": ("differential: the full observation through the public read API before Close equals the one after Open, for symbolic KV / list / set / sorted-set histories through the real Update/Commit/Open over the modelled file system", "§5 C08"),
 "C09": ("Open succeeds on directories produced by symbolic histories (commit-time no-ops, reads of missing buckets in sparse mode) and on every crash image of the C10 scenarios (every mutation point, every byte cut)", "§5 C09"),
 "C10": ("crash atomicity: the modelled process dies at any file-mutation point (in-flight segment write cut at any byte); after the real Open the observation equals a crash-free twin's state after the last returned commit, or that plus the in-flight transaction in full", "§5 C10"),
 "C11": ("the C10 crash scenarios with SyncEnable under a power-loss model of the file system: at the crash every file independently keeps its content or reverts to its content at its last sync", "§5 C11"),
 "C12": ("differential no-effect check of failed (fn error, rollback, oversized entry at any position, injected write error), read-only and finished transactions, in process and after reopen", "§5 C12"),
 "C13": ("differential: a multi-operation write transaction against a twin database committing each operation on its own (return values and final observation)", "§5 C13"),
 "C14": ("lock discipline (DESIGN §6): every API operation runs symbolically while every load/store of shared state (DB object graph, package variables, files) is checked against the lock held: writes need the write lock, reads a lock, no package variable is written under a per-database lock; lock balance and self-deadlock on every path. Schedules are not enumerated", "§6"),
 "C15": ("differential: the full observation before Merge equals the one after it (and after a second Merge); a twin database that never merges receives the same history and the same later writes, compared in process and after reopen; TTL records expiring before the merge; Merge after a crash must not resurrect uncommitted records", "§5 C15"),
 "C16": ("the C15 scenario with the modelled process dying at any file-mutation point inside Merge (every byte cut of every rewritten record, every create / truncate / remove); after the real Open the observation equals the one before Merge", "§5 C16"),
 "C17": ("the lock-discipline check of §6 with Merge as the operation (every access Merge performs outside its own write transaction is reported)", "§6"),
 "C18": ("Backup: lock discipline of the copy (read lock held for the whole CopyDir) and differential: the copy opens and shows exactly the observation at backup time, not later writes", "§5 C18"),
 "C19": ("differential: one symbolic history on two databases that differ in RWMode, StartFileLoadingMode, SyncEnable or index mode; call results, observation and observation after reopen must agree (includes entries that exactly fill a segment)", "§5 C19"),
 "C20": ("no-panic obligations: every exported Tx method and the DB methods with adversarial arguments (symbolic 64-bit indexes/counts/offsets/limits, boundary integers, NaN/Inf, nil/empty/separator keys, wrong/missing/empty buckets, invalid regexp, nil options), followed by Commit, on finished transactions, read-only transactions and closed databases; Open with arbitrary option values", "§5 C20"),
 "C21": ("encode/decode round trip for all field values, every single-bit flip and every truncation of stored entries, root-index records and bucket metadata (CRC as collision-free digest)", "§5 C21"),
 "C22": ("real Open over directories created in each index mode (fresh, written, merged) and reopened in each other mode: incompatible modes must be refused with the directory image unchanged, RAM modes interchangeable", "§5 C22"),
}
notes = {
}
na = {}
import os
props=[json.loads(l) for l in open('/verif/properties.jsonl')]
checks=[]
for p in props:
    pid=p['id']
    if pid in claimed:
        txt,ref=claimed[pid]
        checks.append({
          "property_id":pid,
          "quick_cmd":"./check.sh %s quick"%pid,
          "thorough_cmd":"./check.sh %s thorough"%pid,
          "evidence_file":"/verif/evidence/%s.json"%pid,
          "replay_cmd_template":"./bin/gosmt replay {path}",
          "engine":"gosmt",
          "level_claimed":{"category":"model_checking","text":"Bounded symbolic model checking of the real Go SSA: "+txt+". Every assertion and every implicit panic obligation on every feasible path is decided by z3 for all values inside the stated bounds; counterexamples are replayed against the native build before they are reported.","design_ref":ref},
          "level_note":"Trusted: the SSA->SMT encoder (validated on every run by replaying solver models natively and comparing observations), go/ssa, z3; environment stubs and bounds as listed in the evidence file's assumptions. Nothing is claimed outside the bounds.",
          "technique":"bounded symbolic execution of go/ssa, decided by SMT (z3; z3-5.1/cvc5 fallback)"
        })
    else:
        na[pid]=na.get(pid) or "check not yet built in this session (see DESIGN.md §5 for the planned harness)"
m={"version":1,
 "setup_cmd":"cd /verif/engine && GOFLAGS=-mod=mod GOPROXY=off GOSUMDB=off GOTOOLCHAIN=local go build -o /verif/bin/gosmt .",
 "hooks":{"guard":"verif","enable":"none needed: harnesses are injected with go/packages overlays and `go test -overlay`; /repo carries no hook code","baseline_off_cmd":"cd /repo && go test -vet=off -count=1 ./...","source_commits":[],"add_only":True},
 "engines":[{"name":"gosmt","path":"/verif/engine","serves_properties":sorted(claimed),"kind_free_text":"symbolic executor for go/ssa written for this task: forks on symbolic branches by deterministic re-execution, SMT-LIB2 queries to persistent z3 processes, native replay of every model"}],
 "checks":checks,
 "notes":"All checks regenerate the encoding from /repo's current working tree on every run (packages.Load + go/ssa). Exit 0 pass, 1 VIOLATION (replayed natively), 2 INCONCLUSIVE (never a pass). Known findings: /verif/known_findings.json.",
 "not_applicable":[{"property_id":k,"reason":v} for k,v in sorted(na.items())]}
json.dump(m,open('/verif/MANIFEST.json','w'),indent=1)
print(len(checks),"checks,",len(na),"not claimed")
