#!/bin/sh
# usage: ./check.sh <property id> [quick|thorough]
# Runs the solver-based check of one property against /repo's current working tree.
cd /verif || exit 2
export GOFLAGS=-mod=mod GOPROXY=off GOSUMDB=off GOTOOLCHAIN=local
if [ ! -x bin/gosmt ] || [ -n "$(find engine -name '*.go' -newer bin/gosmt 2>/dev/null)" ]; then
  (cd engine && go build -o ../bin/gosmt .) || { echo "INCONCLUSIVE engine build failed"; exit 2; }
fi
tier="${2:-${VERIF_TIER:-quick}}"
exec ./bin/gosmt check -prop "$1" -tier "$tier"
